"""Rules shared by several properties (instantiated under each property's own id).

optname       R-THREAD by name: a value read from `args.<a>` that is bound to a name / keyword `<b>` which is itself a
              CLI option of the package must have a == b  (copy-paste plumbing: `keep_cterm = args.keep_nterm`)
ctxmgr        generator context managers restore their state in a `finally` (exception safety of swap/restore helpers)
memo_shared   no functools cache on a function that hands out a fresh mutable container (callers mutate the shared value)
"""
import ast
import re
from sa.model import unparse, call_name, kwarg, walk_no_nested, AnalysisError


def all_dests(repo):
    """every argparse dest of the package (add_argument flags)"""
    out = set()
    for f in repo.funcs_in('cli'):
        for c in [n for n in ast.walk(f.node) if isinstance(n, ast.Call) and call_name(n) == 'add_argument']:
            dest = kwarg(c, 'dest')
            if isinstance(dest, ast.Constant):
                out.add(dest.value)
                continue
            longs = [a.value for a in c.args if isinstance(a, ast.Constant) and isinstance(a.value, str) and a.value.startswith('--')]
            if longs:
                out.add(longs[0][2:].replace('-', '_'))
    return out


def _args_reads(e):
    return [n for n in ast.walk(e) if isinstance(n, ast.Attribute) and unparse(n.value) in ('args', 'self.args') and isinstance(n.ctx, ast.Load)]


def optname(chk, repo, rid, mod_prefixes, floor=1):
    chk.rule(rid, 'R-THREAD: an option value bound to a name that is itself an option name carries that very option '
             '(no cross-wired plumbing between CLI and library)', floor)
    from sa.options import cli_options
    mod_dests = {}
    for f in repo.functions.values():
        if not any(f.module.modname == m or f.module.modname.startswith(m + '.') for m in mod_prefixes):
            continue
        if f.module.modname not in mod_dests:
            # the options of THIS command: add_argument calls reachable from the module's sub-parser builder
            d_ = set()
            for g in repo.functions.values():
                if g.module is f.module and g.name.startswith(('add_subparser', 'add_args')):
                    d_ |= set(cli_options(repo, g))
            mod_dests[f.module.modname] = d_
        dests = mod_dests[f.module.modname]
        if not dests:
            continue
        for n in walk_no_nested(f.node):
            pairs = []
            if isinstance(n, (ast.Assign, ast.AnnAssign)) and getattr(n, 'value', None) is not None:
                tg = n.targets[0] if isinstance(n, ast.Assign) else n.target
                if isinstance(tg, ast.Name):
                    pairs.append((tg.id, n.value))
                elif isinstance(tg, ast.Attribute) and unparse(tg.value) == 'self':
                    pairs.append((tg.attr, n.value))
            elif isinstance(n, ast.Call):
                for k in n.keywords:
                    if k.arg:
                        pairs.append((k.arg, k.value))
            for name, val in pairs:
                if name not in dests:
                    continue
                reads = {r.attr for r in _args_reads(val)}
                if not reads or len(reads) != 1:
                    continue
                a = next(iter(reads))
                if a not in dests:
                    continue
                chk.call_sites += 1
                chk.ob(rid, f"{f.qual.split(':')[1]}: '{name}' <- args.{a}", repo.loc(f, n), a == name,
                       f"'{name}' is bound to args.{a}: the value of --{a.replace('_', '-')} is used where --{name.replace('_', '-')} was requested "
                       f"(the option --{name.replace('_', '-')} is parsed but never reaches the library)", key=f"{f.qual}::optname::{name}", fn=f.qual)


def _ctx_findings(fnode):
    """[yield statements whose clean-up is not protected] for one @contextmanager function"""
    bad = []
    ys = [n for n in walk_no_nested(fnode) if isinstance(n, ast.Expr) and isinstance(n.value, ast.Yield)]
    for y in ys:
        blk = owner = field = None
        for p in ast.walk(fnode):
            for fld in ('body', 'orelse', 'finalbody'):
                b = getattr(p, fld, None)
                if isinstance(b, list) and y in b:
                    blk, owner, field = b, p, fld
        after = blk[blk.index(y) + 1:] if blk else []
        in_try_with_finally = isinstance(owner, ast.Try) and field == 'body' and bool(owner.finalbody)
        ok = (not after) and (in_try_with_finally or not _has_following(fnode, owner))
        if not ok:
            bad.append(y)
    return bad


_CTX_BAD = """
@contextmanager
def swap(self, k, v):
    old = self.d[k]
    self.d[k] = v
    yield self
    self.d[k] = old
"""
_CTX_GOOD = """
@contextmanager
def swap(self, k, v):
    old = self.d[k]
    self.d[k] = v
    try:
        yield self
    finally:
        self.d[k] = old
"""


def ctxmgr(chk, repo, rid, mod_prefixes=None, floor=0):
    from sa.model import AnalysisError
    chk.rule(rid, 'generator context managers: whatever follows the `yield` runs in a `finally` (state is restored when the body raises)', floor)
    # built-in positive / negative example (the expected count on the repository is zero)
    if not _ctx_findings(ast.parse(_CTX_BAD).body[0]) or _ctx_findings(ast.parse(_CTX_GOOD).body[0]):
        raise AnalysisError(f"rule {rid}: built-in example of the context-manager rule no longer behaves as expected")
    for f in repo.funcs_in():
        if mod_prefixes and not any(f.module.modname == m or f.module.modname.startswith(m + '.') for m in mod_prefixes):
            continue
        if not any('contextmanager' in unparse(d) for d in f.node.decorator_list):
            continue
        bad = _ctx_findings(f.node)
        chk.ob(rid, f"{f.qual}: clean-up after `yield` is in a finally", f.where, not bad,
               f"{f.qual}: statements after the `yield` of a context manager are skipped when the managed block raises "
               "(the swapped state is never restored: a failure caught by --skip-failed leaks into the following units)",
               key=f"{f.qual}::ctxmgr-finally", fn=f.qual)


def _has_following(fn, owner) -> bool:
    """statements that run after the block owning the yield (outside any finally)"""
    if owner is fn:
        return False
    for p in ast.walk(fn):
        for fld in ('body', 'orelse'):
            b = getattr(p, fld, None)
            if isinstance(b, list) and owner in b:
                if b[b.index(owner) + 1:]:
                    return True
                return _has_following(fn, p)
    return False


def memo_shared(chk, repo, rid, mod_prefixes, floor=0):
    chk.rule(rid, 'no functools cache on a function whose result is a mutable container (callers would share and mutate one object)', floor)
    for f in repo.functions.values():
        if not any(f.module.modname == m or f.module.modname.startswith(m + '.') for m in mod_prefixes):
            continue
        cached = any(('lru_cache' in unparse(d) or unparse(d) in ('cache', 'functools.cache')) for d in f.node.decorator_list)
        chk.functions.add(f.qual)
        # hand-written memo: `if self.A is None: self.A = <parsed records>` ... `return self.A` - every caller receives the object that is kept
        kept = {unparse(t) for a in walk_no_nested(f.node) if isinstance(a, ast.Assign) for t in a.targets
                if isinstance(t, ast.Attribute) and isinstance(t.value, ast.Name) and t.value.id == 'self'
                and isinstance(a.value, (ast.Call, ast.ListComp, ast.List, ast.DictComp, ast.Dict)) and f.node.name not in ('__init__',)}
        guarded = {k for k in kept if any(isinstance(i, ast.If) and k in unparse(i.test) and ('is None' in unparse(i.test) or 'not ' in unparse(i.test))
                                          for i in walk_no_nested(f.node))}
        rets_ = [unparse(r.value) for r in walk_no_nested(f.node) if isinstance(r, ast.Return) and r.value is not None]
        shared_ = sorted(k for k in guarded if k in rets_)
        if shared_ and (f.node.name.startswith(('load', 'parse', 'read')) or 'record' in f.node.name.lower()):
            chk.ob(rid, f"{f.qual}: parsed records are not kept and handed out again", f.where, False,
                   f"{f.qual} keeps what it parsed in {shared_} and returns that same object on every later call: callers that adjust records in place "
                   "(shift_breakpoint_to_closest_exon, shift_deletion_up) see their own earlier changes the next time the block is loaded", key=f"{f.qual}::memo-shared", fn=f.qual)
            continue
        if not cached:
            continue
        mutable = False
        for r in [n for n in walk_no_nested(f.node) if isinstance(n, ast.Return) and n.value is not None]:
            v = r.value
            if isinstance(v, ast.Name):
                for a in walk_no_nested(f.node):
                    if isinstance(a, (ast.Assign, ast.AnnAssign)) and getattr(a, 'value', None) is not None:
                        tg = a.targets[0] if isinstance(a, ast.Assign) else a.target
                        if unparse(tg) == v.id and isinstance(a.value, (ast.Dict, ast.List, ast.Set, ast.DictComp, ast.ListComp, ast.SetComp)):
                            mutable = True
                        if unparse(tg) == v.id and isinstance(a.value, ast.Call) and call_name(a.value) in ('dict', 'list', 'set', 'defaultdict', 'OrderedDict'):
                            mutable = True
            if isinstance(v, (ast.Dict, ast.List, ast.Set, ast.DictComp, ast.ListComp, ast.SetComp)):
                mutable = True
        chk.ob(rid, f"{f.qual}: cached function returns an immutable value", f.where, not mutable,
               f"{f.qual} is memoised but returns a mutable container: every caller receives the SAME object, so an in-place update of one parsed "
               "record's attributes (e.g. shift_breakpoint_to_closest_exon) silently changes every later parse of that text", key=f"{f.qual}::memo-shared", fn=f.qual)


def sorted_before_use(chk, repo, rid, fqual, ctor, kw, why):
    """the list passed as `kw` to `ctor(...)` in function `fqual` is sorted (L.sort() dominating the call, or sorted(L)) after
    the last statement that appends to it"""
    from sa.cfg import CFG
    from sa import sem
    f = repo.func(fqual)
    chk.uses(f)
    nf = sem.nf(repo, f)
    cfg = CFG(nf)
    sites = [n for n in cfg.nodes if n.kind == 'stmt' and sem.calls_in_stmt(n.ast, ctor)]
    ok = bool(sites)
    detail = f"{ctor}(...) call not found"
    for sn in sites:
        c = sem.calls_in_stmt(sn.ast, ctor)[0]
        v = kwarg(c, kw)
        if v is None:
            ok, detail = False, f"{ctor}(..., {kw}=...) not passed"
            continue
        if isinstance(v, ast.Call) and call_name(v) == 'sorted':
            continue
        if not isinstance(v, ast.Name):
            ok, detail = False, f"{kw}={unparse(v)} is not a list bound to a local (cannot decide)"
            continue
        L = v.id
        sorts = [n.id for n in cfg.nodes if n.kind == 'stmt' and isinstance(n.ast, ast.Expr) and unparse(n.ast.value) == f"{L}.sort()"]
        sorts += [n.id for n in cfg.nodes if n.kind == 'stmt' and isinstance(n.ast, ast.Assign) and unparse(n.ast.targets[0]) == L
                  and isinstance(n.ast.value, ast.Call) and call_name(n.ast.value) == 'sorted']
        prods = [n.id for n in cfg.nodes if n.kind == 'stmt' and any(unparse(c2.func.value) == L for c2 in sem.calls_in_stmt(n.ast, 'append'))]
        good = [s_ for s_ in sorts if cfg.dominates(s_, sn.id) and not any(s_ in cfg.reachable(p_) and p_ in cfg.reachable(s_) and False for p_ in prods)]
        # the sort must come after every producer: no producer is reachable from the sort
        good = [s_ for s_ in good if not any(p_ in cfg.reachable(s_) for p_ in prods)]
        if not good:
            ok, detail = False, f"'{L}' is passed as {kw} without a dominating {L}.sort() after its last append"
    chk.ob(rid, f"{f.name}: {kw} of {ctor}(...) is sorted after it was built", f.where, ok, f"{detail}: {why}", key=f"{fqual}::sorted::{kw}", fn=f.qual)


# ----------------------------------------------------------------------------- memo keyed by a lossy projection of its inputs
def _deps(fn, name, params, depth=0, seen=None):
    """parameters the value of local `name` may depend on (data deps through assignments / mutations, control deps through
    enclosing loop headers and tests)"""
    seen = seen if seen is not None else set()
    if name in seen:
        return set()
    seen.add(name)
    if name in params:
        return {name}
    out = set()

    def ctl_names(st):
        names = set()
        for p in ast.walk(fn):
            for fld in ('body', 'orelse'):
                b = getattr(p, fld, None)
                if isinstance(b, list) and st in b:
                    if isinstance(p, ast.For):
                        names |= {x.id for x in ast.walk(p.iter) if isinstance(x, ast.Name)}
                        names |= ctl_names(p)
                    elif isinstance(p, (ast.If, ast.While)):
                        names |= {x.id for x in ast.walk(p.test) if isinstance(x, ast.Name)}
                        names |= ctl_names(p)
                    elif not isinstance(p, (ast.FunctionDef, ast.AsyncFunctionDef)):
                        names |= ctl_names(p)
        return names
    for st in [s for s in ast.walk(fn) if isinstance(s, ast.stmt)]:
        touches = False
        reads = set()
        if isinstance(st, (ast.Assign, ast.AugAssign, ast.AnnAssign)):
            tgts = st.targets if isinstance(st, ast.Assign) else [st.target]
            for t in tgts:
                base = t
                while isinstance(base, (ast.Subscript, ast.Attribute)):
                    base = base.value
                if isinstance(base, ast.Name) and base.id == name:
                    touches = True
                for e in ast.walk(t):
                    if isinstance(e, ast.Name) and e.id == name and isinstance(t, (ast.Tuple, ast.List)):
                        touches = True
            if touches and getattr(st, 'value', None) is not None:
                reads |= {x.id for x in ast.walk(st.value) if isinstance(x, ast.Name)}
                for t in tgts:
                    if isinstance(t, ast.Subscript):
                        reads |= {x.id for x in ast.walk(t.slice) if isinstance(x, ast.Name)}
        elif isinstance(st, ast.For) and any(isinstance(x, ast.Name) and x.id == name for x in ast.walk(st.target)):
            touches = True
            reads |= {x.id for x in ast.walk(st.iter) if isinstance(x, ast.Name)}
        elif isinstance(st, ast.Expr) and isinstance(st.value, ast.Call) and isinstance(st.value.func, ast.Attribute) \
                and isinstance(st.value.func.value, ast.Name) and st.value.func.value.id == name:
            touches = True
            reads |= {x.id for a in st.value.args for x in ast.walk(a) if isinstance(x, ast.Name)}
        if touches:
            reads |= ctl_names(st)
            for r in reads - {name}:
                out |= _deps(fn, r, params, depth + 1, seen)
    return out


def _lossless_params(fn, e, params, depth=0):
    """parameters that occur in key expression e through identity-preserving constructions only"""
    out = set()
    if isinstance(e, ast.Name):
        if e.id in params:
            return {e.id}
        if depth < 3:
            for st in ast.walk(fn):
                if isinstance(st, ast.Assign) and len(st.targets) == 1 and isinstance(st.targets[0], ast.Name) and st.targets[0].id == e.id:
                    out |= _lossless_params(fn, st.value, params, depth + 1)
        return out
    if isinstance(e, (ast.Tuple, ast.List)):
        for x in e.elts:
            out |= _lossless_params(fn, x, params, depth)
        return out
    if isinstance(e, ast.JoinedStr):
        for v in e.values:
            if isinstance(v, ast.FormattedValue):
                out |= _lossless_params(fn, v.value, params, depth)
        return out
    if isinstance(e, ast.Call) and call_name(e) in ('str', 'tuple', 'int') and len(e.args) == 1:
        return _lossless_params(fn, e.args[0], params, depth)
    return out          # attribute dereferences, subscripts into tables, arithmetic: lossy


def memo_param_gaps(fnode):
    """[(store statement, key text, missing parameters)] for `self.<cache>[K] = V` where the same cache is read under K"""
    params = {a.arg for a in fnode.args.posonlyargs + fnode.args.args + fnode.args.kwonlyargs} - {'self', 'cls'}
    out = []
    for st in ast.walk(fnode):
        if not (isinstance(st, ast.Assign) and len(st.targets) == 1 and isinstance(st.targets[0], ast.Subscript)):
            continue
        t = st.targets[0]
        if not (isinstance(t.value, ast.Attribute) and unparse(t.value.value) == 'self'):
            continue
        cache = unparse(t.value)
        ktxt = unparse(t.slice)
        read = any((isinstance(c, ast.Call) and call_name(c) == 'get' and unparse(c.func.value) == cache and c.args and unparse(c.args[0]) == ktxt) or
                   (isinstance(c, ast.Subscript) and isinstance(c.ctx, ast.Load) and unparse(c.value) == cache and unparse(c.slice) == ktxt) or
                   (isinstance(c, ast.Compare) and len(c.ops) == 1 and isinstance(c.ops[0], (ast.In, ast.NotIn)) and unparse(c.comparators[0]) == cache and unparse(c.left) == ktxt)
                   for c in ast.walk(fnode))
        if not read:
            continue
        # a memo, not a registry: the value stored is the local that first received the cache read (or the function answers with C[K])
        is_memo = False
        if isinstance(st.value, ast.Name):
            V = st.value.id
            for a in ast.walk(fnode):
                if isinstance(a, ast.Assign) and len(a.targets) == 1 and isinstance(a.targets[0], ast.Name) and a.targets[0].id == V:
                    if (isinstance(a.value, ast.Call) and call_name(a.value) == 'get' and unparse(a.value.func.value) == cache) or \
                            (isinstance(a.value, ast.Subscript) and unparse(a.value.value) == cache):
                        is_memo = True
        if any(isinstance(r, ast.Return) and isinstance(r.value, ast.Subscript) and unparse(r.value.value) == cache for r in ast.walk(fnode)):
            is_memo = True
        if not is_memo:
            continue
        vdeps = set()
        for x in ast.walk(st.value):
            if isinstance(x, ast.Name):
                vdeps |= _deps(fnode, x.id, params)
        kp = _lossless_params(fnode, t.slice, params)
        missing = sorted(vdeps - kp)
        out.append((st, ktxt, missing))
    return out


_MEMO_BAD = """
def find(self, transcript_id, feature):
    tx_model = self.transcripts[transcript_id]
    gene_id = tx_model.transcript.gene_id
    lookup = self._lookup.get(gene_id)
    if lookup is None:
        lookup = {}
        for i, exon in enumerate(tx_model.exon):
            lookup[exon.start] = i
        self._lookup[gene_id] = lookup
    return lookup[feature.start]
"""
_MEMO_GOOD = _MEMO_BAD.replace('self._lookup.get(gene_id)', 'self._lookup.get(transcript_id)').replace('self._lookup[gene_id]', 'self._lookup[transcript_id]')


def memo_params(chk, repo, rid, quals_or_prefix, floor=0):
    from sa.model import AnalysisError
    chk.rule(rid, 'R-MEMO: a persistent cache is keyed by every parameter its cached value depends on (not by a lossy projection such as the gene of a transcript)', floor)
    if not [g for g in memo_param_gaps(ast.parse(_MEMO_BAD).body[0]) if g[2]] or [g for g in memo_param_gaps(ast.parse(_MEMO_GOOD).body[0]) if g[2]]:
        raise AnalysisError(f"rule {rid}: built-in example of the memo-key rule no longer behaves as expected")
    for f in repo.functions.values():
        if not any(f.qual == q or f.qual.startswith(q) for q in quals_or_prefix):
            continue
        chk.functions.add(f.qual)
        for st, ktxt, missing in memo_param_gaps(f.node):
            chk.ob(rid, f"{f.qual}: cache entry '{unparse(st.targets[0])[:50]}' keyed by everything it depends on", repo.loc(f, st), not missing,
                   f"the cached value depends on {missing} but the key is '{ktxt}': a later call with another {'/'.join(missing)} that maps to the same key "
                   "gets the first caller's answer (e.g. the exon table of another isoform of the gene)", key=f"{f.qual}::memo-params::{unparse(st.targets[0].value)}", fn=f.qual)


def pointers_append_only(chk, repo, rid, floor=2):
    """the pointer table of the on-disk variant pool only grows: a further GVF file (indexed or not) appends to the pointer
    list of a transcript and never replaces it"""
    from sa import sem
    chk.rule(rid, 'adding a GVF file only appends pointers (never replaces the pointer list of a transcript known from an earlier file)', floor)
    for q in ('seqvar.VariantRecordPoolOnDisk:VariantRecordPoolOnDisk.load_index', 'seqvar.VariantRecordPoolOnDisk:VariantRecordPoolOnDisk.generate_index'):
        g = repo.func(q)
        chk.uses(g)
        nf = sem.nf(repo, g)
        bad, n_app = [], 0
        sites = sem.facts_where(nf, lambda st: 'self.pointers' in unparse(st) and sem.own_stmt(st))
        for st, fx in sites:
            t = unparse(st)
            if isinstance(st, ast.Expr) and isinstance(st.value, ast.Call) and call_name(st.value) == 'append' and \
                    (unparse(st.value.func.value).startswith('self.pointers[') or unparse(st.value.func.value).startswith('self.pointers.setdefault(')):
                n_app += 1
                continue
            if isinstance(st, ast.Assign) and isinstance(st.targets[0], ast.Subscript) and unparse(st.targets[0].value) == 'self.pointers':
                K = unparse(st.targets[0].slice)
                if sem.known(fx, f"{K} not in self.pointers") is True:
                    n_app += 1
                    continue
                bad.append(t[:70])
                continue
            # reads are fine; any other write is not
            writes = isinstance(st, (ast.Assign, ast.AugAssign, ast.Delete)) and any('self.pointers' in unparse(x) for x in (
                st.targets if isinstance(st, (ast.Assign, ast.Delete)) else [st.target]))
            mut = isinstance(st, ast.Expr) and isinstance(st.value, ast.Call) and isinstance(st.value.func, ast.Attribute) and \
                unparse(st.value.func.value).startswith('self.pointers') and st.value.func.attr in ('update', 'pop', 'clear', 'popitem', 'setdefault', '__setitem__')
            if writes or mut:
                if mut and st.value.func.attr == 'setdefault':
                    continue
                bad.append(t[:70])
        chk.ob(rid, f"{g.name}: pointer lists are only appended to", g.where, not bad and n_app >= 1,
               f"writes to self.pointers other than appends: {bad or 'no append found'}: pointers of transcripts known from earlier GVF files can be replaced "
               "(records of the earlier files are lost for those transcripts)", key=q + '::append-only', fn=g.qual)


# intentional `a=b` hand-overs, confirmed by reading (one line of reason each)
KWNAME_ALLOW = {
    ('dna.DNASeqRecord:DNASeqRecord.find_cleave_positions_within', 'start', 'end'),    # the search to the right of the window starts at its end
    ('dna.DNASeqRecord:DNASeqRecord.find_cleave_positions_within', 'end', 'start'),    # the search to the left of the window ends at its start
    ('svgraph.PVGNodeCollapser:PVGNodeCollapser.should_keep_first', 'first', 'second'),   # symmetric test evaluated with the roles swapped
    ('svgraph.PVGNodeCollapser:PVGNodeCollapser.should_keep_first', 'second', 'first'),
    ('svgraph.TVGNodeCollapser:TVGNodeCollapser.should_keep_first', 'first', 'second'),
    ('svgraph.TVGNodeCollapser:TVGNodeCollapser.should_keep_first', 'second', 'first'),
    # the traversal only requires variants when EXTERNAL variants are required (callAltTranslation adds SECT / W2F afterwards); the final
    # get_peptide_sequences() applies check_variants itself
    ('svgraph.PeptideVariantGraph:PeptideVariantGraph.call_variant_peptides', 'check_variants', 'check_external_variants'),
}


def kwname(chk, repo, rid, mod_prefixes, floor=1, allow=KWNAME_ALLOW):
    """R-THREAD by name inside the library: a keyword argument `k=v` whose value is a parameter of the enclosing function,
    where `k` is the name of ANOTHER parameter of that same function, is cross-wired (`w2f=truncate_sec`)."""
    chk.rule(rid, 'R-THREAD: parameters handed on as keyword arguments keep their name (no `a=b` between two parameters of the same function)', floor)
    n = 0
    for f in repo.functions.values():
        if not any(f.module.modname == m or f.module.modname.startswith(m + '.') for m in mod_prefixes):
            continue
        params = set(f.params()) - {'self', 'cls'}
        if len(params) < 2:
            continue
        for c in [x for x in walk_no_nested(f.node) if isinstance(x, ast.Call)]:
            for k in c.keywords:
                if k.arg and isinstance(k.value, ast.Name) and k.value.id in params and k.arg in params:
                    n += 1
                    ok = k.arg == k.value.id or (f.qual, k.arg, k.value.id) in allow
                    chk.ob(rid, f"{f.qual.split(':')[1]}: {call_name(c)}({k.arg}={k.value.id})", repo.loc(f, c), ok,
                           f"{call_name(c)}({k.arg}={k.value.id}): the parameter '{k.value.id}' is passed where '{k.arg}' (another parameter of {f.name}) is expected",
                           key=f"{f.qual}::kwname::{call_name(c)}::{k.arg}", fn=f.qual)
    chk.call_sites += n


# ----------------------------------------------------------------------------- a pointer reads exactly its byte range
def pointer_byte_range(chk, repo, rid, fqual, what, key_suffix='::byte-range', decode_required=True):
    """In `fqual` the handle is positioned at self.start (absolute seek, or relative seek by self.start - tell()), exactly
    len(self) / self.end - self.start raw bytes are read, and the result is decoded afterwards (the offsets are byte offsets).
    Decided on the normal form with definitions expanded: intermediate locals and their names do not matter."""
    import re
    from sa import sem
    lf = repo.func(fqual)
    chk.uses(lf)
    nlf = sem.nf(repo, lf)
    ch = sem.block_chains(nlf)
    seeks = [(st, c) for st in ast.walk(nlf) if isinstance(st, ast.stmt) and sem.own_stmt(st) for c in sem.calls_in_stmt(st, 'seek')]
    reads = [(st, c) for st in ast.walk(nlf) if isinstance(st, ast.stmt) and sem.own_stmt(st) for c in sem.calls_in_stmt(st, 'read')]
    ok = len(seeks) == 1 and len(reads) == 1
    det = f"{len(seeks)} seek / {len(reads)} read calls"
    if ok:
        s_st, s_c = seeks[0]
        r_st, r_c = reads[0]
        a0 = unparse(sem.expand_names(nlf, s_st, s_c.args[0], chains=ch, allow_calls=('tell',))) if s_c.args else ''
        whence = unparse(s_c.args[1]) if len(s_c.args) > 1 else (unparse(kwarg(s_c, 'whence')) if kwarg(s_c, 'whence') is not None else '0')
        rel = re.sub(r'\s', '', a0)
        ok_seek = (whence in ('1', 'os.SEEK_CUR') and rel == 'self.start-self.handle.tell()') or (whence in ('0', 'os.SEEK_SET') and rel == 'self.start')
        ra = unparse(sem.expand_names(nlf, r_st, r_c.args[0], chains=ch)) if r_c.args else ''
        ok_read = re.sub(r'\s', '', ra) in ('len(self)', 'self.end-self.start')
        ok = ok_seek and ok_read and unparse(s_c.func.value) == unparse(r_c.func.value)
        det = f"seek({a0}, {whence}); read({ra})"
        if ok and decode_required:
            # the bytes are decoded: a `.decode(` call whose receiver expands to the read call
            decs = [c for st in ast.walk(nlf) if isinstance(st, ast.stmt) and (sem.own_stmt(st) or isinstance(st, ast.For))
                    for c in ast.walk(st.iter if isinstance(st, ast.For) else st) if isinstance(c, ast.Call) and isinstance(c.func, ast.Attribute) and c.func.attr == 'decode'
                    and '.read(' in unparse(sem.expand_names(nlf, st, c.func.value, chains=ch, allow_calls=('read',)))]
            ok = len(decs) >= 1
            det += '' if ok else '; the bytes read are not decoded'
    chk.ob(rid, f"{what} seeks to start and reads end - start bytes", lf.where, ok, f"{what}: {det}", key=lf.qual + key_suffix, fn=lf.qual)


# ----------------------------------------------------------------------------- slicing a sequence that carries coordinates
def coord_slice(chk, repo, rid, quals, floor=None):
    """`seq[start:stop]` of a record with matched locations keeps, for every location [lhs, rhs) that overlaps the slice, exactly
    the intersection: query = [max(lhs, start) - start, min(rhs, stop) - start), ref shifted by max(lhs, start) - lhs; locations
    outside the slice are dropped.  The two MatchedLocation operations used are first checked against their own bodies
    (slice: query [0, b - a), ref [R + a, R + b); shift(i): query + i, ref unchanged), then every path through one iteration of
    the location loop is interpreted over (query.start, query.end, ref.start) as affine forms and compared, case by case
    (the path's own comparisons lhs <= start / rhs <= stop select the case), with the definitional intersection."""
    from sa import sem
    from sa.cfg import CFG, iteration_paths
    from sa.affine import simple_aff, Aff
    chk.rule(rid, 'R-AFFINE-EQV: slicing a record with coordinates keeps the intersection of every overlapped location, shifted to the slice origin', floor if floor is not None else 6 * len(quals) + 2)
    # ---- models of MatchedLocation.__getitem__ / shift, verified on their bodies
    gi = repo.func('SeqFeature:MatchedLocation.__getitem__')
    sh = repo.func('SeqFeature:MatchedLocation.shift')
    chk.uses(gi, sh)

    def ctor_kwargs(fn, which):
        out = {}
        for st in ast.walk(fn.node):
            if isinstance(st, ast.Assign) and len(st.targets) == 1 and isinstance(st.targets[0], ast.Name) and st.targets[0].id == which and isinstance(st.value, ast.Call):
                out = {k.arg: unparse(k.value).replace(' ', '') for k in st.value.keywords if k.arg in ('start', 'end')}
        return out
    q_, r_ = ctor_kwargs(gi, 'query'), ctor_kwargs(gi, 'ref')
    idx = any(isinstance(st, ast.Assign) and unparse(st.value) == 'index.indices(len(self))' and unparse(st.targets[0]).replace(' ', '').startswith('(start,stop,')
              for st in ast.walk(gi.node))
    ok_gi = idx and q_ == {'start': '0', 'end': 'stop-start'} and r_ == {'start': 'self.ref.start+start', 'end': 'self.ref.start+stop'}
    chk.ob(rid, 'model: location[a:b] has query [0, b - a) and ref [ref.start + a, ref.start + b)', gi.where, ok_gi,
           f"MatchedLocation.__getitem__ builds query {q_} / ref {r_}", key=gi.qual + '::model', fn=gi.qual)
    qs = ctor_kwargs(sh, 'query')
    ret_ref = any(isinstance(n, ast.Return) and isinstance(n.value, ast.Call) and kwarg(n.value, 'ref') is not None and unparse(kwarg(n.value, 'ref')) == 'self.ref'
                  for n in ast.walk(sh.node))
    ok_sh = qs == {'start': 'self.query.start+i', 'end': 'self.query.end+i'} and ret_ref
    chk.ob(rid, 'model: location.shift(i) moves the query by i and keeps the ref', sh.where, ok_sh, f"MatchedLocation.shift builds query {qs}, ref kept: {ret_ref}",
           key=sh.qual + '::model', fn=sh.qual)
    LHS, RHS, R, START, STOP = (Aff.sym(x) for x in ('lhs', 'rhs', 'R', 'start', 'stop'))
    for q in quals:
        f = repo.func(q)
        chk.uses(f)
        loops_ = [l for l in walk_no_nested(f.node) if isinstance(l, ast.For) and unparse(l.iter) == 'self.locations' and isinstance(l.target, ast.Name)]
        if len(loops_) != 1:
            chk.undecided(rid, f"{f.qual}: location loop", f.where, 'the loop over self.locations was not found', key=q + '::loop', fn=f.qual)
            continue
        lp = loops_[0]
        L = lp.target.id
        # start / stop come from index.indices(len(self))
        src = [st for st in walk_no_nested(f.node) if isinstance(st, ast.Assign) and unparse(st.value) == 'index.indices(len(self))']
        ok_src = len(src) == 1 and unparse(src[0].targets[0]).replace(' ', '').startswith('(start,stop,')
        cfg = CFG(f.node)
        ps = iteration_paths(cfg, lp, max_paths=2000)
        chk.paths += len(ps)
        cases = {}
        problems = []
        outs = [c for c in G_find_calls(lp, 'append')]
        out_list = unparse(outs[0].func.value) if len(outs) == 1 else None
        for p in ps:
            env = {L: (LHS, RHS, R)}
            names = {}
            appended = None

            def val(e):
                if isinstance(e, ast.Name) and e.id in env:
                    return env[e.id]
                if isinstance(e, ast.Subscript) and isinstance(e.slice, ast.Slice) and e.slice.step is None:
                    b = val(e.value)
                    if b is None:
                        return None
                    a_ = simple_aff(e.slice.lower, names) if e.slice.lower is not None else Aff(0)
                    b_ = simple_aff(e.slice.upper, names) if e.slice.upper is not None else (b[1] - b[0])
                    if a_ is None or b_ is None:
                        return None
                    return (Aff(0), b_ - a_, b[2] + a_)
                if isinstance(e, ast.Call) and isinstance(e.func, ast.Attribute) and e.func.attr == 'shift' and len(e.args) == 1:
                    b = val(e.func.value)
                    i_ = simple_aff(e.args[0], names)
                    if b is None or i_ is None:
                        return None
                    return (b[0] + i_, b[1] + i_, b[2])
                return None
            bad = False
            for nd in p.nodes():
                a = nd.ast
                if nd.kind != 'stmt':
                    continue
                if isinstance(a, ast.Assign) and len(a.targets) == 1 and isinstance(a.targets[0], ast.Name):
                    t = a.targets[0].id
                    vt = unparse(a.value)
                    if vt == f'{L}.query.start' and env.get(L) == (LHS, RHS, R):
                        names[t] = LHS
                    elif vt == f'{L}.query.end' and env.get(L) == (LHS, RHS, R):
                        names[t] = RHS
                    else:
                        v = val(a.value)
                        if v is not None:
                            env[t] = v
                        else:
                            av = simple_aff(a.value, names)
                            if av is not None and not any(isinstance(x, ast.Name) and x.id in env for x in ast.walk(a.value)):
                                names[t] = av
                            elif any(isinstance(x, ast.Name) and x.id in env for x in ast.walk(a.value)):
                                bad = True
                elif isinstance(a, ast.Expr) and isinstance(a.value, ast.Call) and call_name(a.value) == 'append' and out_list and unparse(a.value.func.value) == out_list:
                    appended = val(a.value.args[0]) if a.value.args else None
                    if appended is None:
                        bad = True
            # which case does the path belong to (its own comparisons, as affine facts over lhs / rhs / start / stop)
            def known(text):
                return p.facts.known(ast.parse(text, mode='eval').body)
            nm = {v: k for k, v in names.items() if v in (LHS, RHS)}
            l_n, r_n = nm.get(LHS), nm.get(RHS)
            if l_n is None or r_n is None:
                problems.append('the query bounds of the location are not read')
                continue
            before, after = known(f'{r_n} <= start'), known(f'{l_n} >= stop')
            cl, cr = known(f'{l_n} <= start'), known(f'{r_n} <= stop')
            broke = any(nd.kind == 'stmt' and isinstance(nd.ast, ast.Break) for nd in p.nodes())
            if appended is None and not bad:
                # the location is dropped (continue / fall through) or the scan is abandoned (break)
                if not (before is True or after is True):
                    problems.append(f"a location is dropped although it is not known to lie outside the slice ({'break' if broke else p.end_kind()})")
                elif broke and after is not True:
                    problems.append('the scan is abandoned at a location that is not behind the slice')
                continue
            if bad or appended is None:
                problems.append('a path builds the kept location in a way that is not understood')
                continue
            if before is not False or after is not False or cl is None or cr is None:
                problems.append(f"a location is kept without the overlap tests being decided on the path ({before}, {after}, {cl}, {cr})")
                continue
            want = (Aff(0) if cl else LHS - START, (RHS - START) if cr else (STOP - START), (R + START - LHS) if cl else R)
            cases[(cl, cr)] = appended == want
            if appended != want:
                problems.append(f"case lhs<=start:{cl}, rhs<=stop:{cr}: kept location has query [{appended[0]!r}, {appended[1]!r}) ref.start {appended[2]!r}, "
                                f"the intersection is query [{want[0]!r}, {want[1]!r}) ref.start {want[2]!r}")
        chk.ob(rid, f"{f.qual}: slice bounds come from index.indices(len(self))", f.where, ok_src, 'start / stop are not the normalised slice bounds', key=q + '::bounds', fn=f.qual)
        for c_ in ((True, True), (True, False), (False, True), (False, False)):
            chk.ob(rid, f"{f.qual}: location overlapping the slice with lhs<=start:{c_[0]}, rhs<=stop:{c_[1]} keeps the intersection", repo.loc(f, lp),
                   cases.get(c_) is True, '; '.join(problems[:2]) or f"no path covers the case {c_}", key=q + f'::case::{int(c_[0])}{int(c_[1])}', fn=f.qual)
        chk.ob(rid, f"{f.qual}: locations are dropped only outside the slice; every path understood", repo.loc(f, lp), not problems, '; '.join(problems[:3]),
               key=q + '::paths', fn=f.qual)


def G_find_calls(node, name):
    from sa import guards as G
    return G.find_calls(node, name)


# ----------------------------------------------------------------------------- R-TRUTHY: numeric parameters are not tested by truthiness
TRUTHY_REVIEWED = {
    # (function, parameter): why the truthiness test is equivalent to `is not None` there
    ('aa.AminoAcidSeqRecord:AminoAcidSeqRecord.get_local_matched_range', 'seq_len'): 'seq_len = 0 only for the empty sequence, where len(seq) is 0 as well',
    ('parser.CIRCexplorerParser:CIRCexplorer3KnownRecord.is_valid', 'min_fbr_circ'): 'a threshold of 0 rejects nothing: same as no threshold',
    ('parser.CIRCexplorerParser:CIRCexplorer3KnownRecord.is_valid', 'min_circ_score'): 'a threshold of 0 rejects nothing: same as no threshold',
    ('svgraph.TVGNode:TVGNode.stringify', 'k'): 'debug printing only',
    ('svgraph.TVGNode:TVGNode.check_stop_altering', 'cds_end'): 'a CDS cannot end at transcript index 0',
}


TRUTHY_ATTR_REVIEWED = {
    # (function, attribute): the truthiness tests of numeric attributes that exist in the reference tree, each read and judged
    ('aa.VariantPeptideIdentifier:BaseVariantPeptideIdentifier.__str__', 'index'): 'label indices start at 1',
    ('aa.VariantPeptideIdentifier:CircRNAVariantPeptideIdentifier.__str__', 'index'): 'label indices start at 1',
    ('aa.VariantPeptideIdentifier:FusionVariantPeptideIdentifier.__str__', 'index'): 'label indices start at 1',
    ('aa.VariantPeptideIdentifier:NovelORFPeptideIdentifier.__str__', 'index'): 'label indices start at 1',
    ('seqvar.SplicingJunction:SpliceJunctionTranscriptAlignment.get_interjacent_exons', 'upstream_end_index'):
        'index -1 stands for "no matched exon"; 0 and -1 both end in the error / empty answer of this guard only when both are falsy (reviewed with C16.i)',
    ('seqvar.SplicingJunction:SpliceJunctionTranscriptAlignment.get_interjacent_exons', 'downstream_start_index'):
        'see upstream_end_index',
    ('svgraph.PVGNode:PVGNode.__getitem__', 'left_cleavage_pattern_end'): 'an END of 0 means an empty look-behind part: same as no pattern',
    ('svgraph.PVGNode:PVGNode.__getitem__', 'right_cleavage_pattern_start'):
        'belief contradiction left as found (get_cleavage_gain_variants tests `is not None`): a pattern starting at residue 0 is dropped by a slice; not shown to change an output',
    ('svgraph.PVGNode:PVGNode.get_cleavage_gain_from_downstream', 'right_cleavage_pattern_start'):
        'belief contradiction left as found: with a pattern start of 0 the else-branch (variants ending at the node end) is taken; not shown to change an output',
    ('svgraph.PVGNode:PVGNode.get_cleavage_gain_from_downstream', 'left_cleavage_pattern_end'): 'an END of 0 means an empty look-behind part: same as no pattern',
}


def truthy_numeric(chk, repo, rid, prefixes, floor=0):
    """A parameter annotated int / float (0 is a legal value: reading frame 0, index 0, offset 0) must be tested with `is None` /
    `is not None`, never by truthiness: `if frame:` silently treats frame 0 as "not given".  Every truthiness test of such a
    parameter is an instance; the five that exist in the reference tree are reviewed (TRUTHY_REVIEWED)."""
    chk.rule(rid, 'R-TRUTHY: numeric parameters (0 is a value) are tested with `is None`, not by truthiness', floor)

    def uses(fn, name):
        out = []

        def vt(e):
            if isinstance(e, ast.Name) and e.id == name:
                out.append(e)
            elif isinstance(e, ast.BoolOp):
                for v in e.values:
                    vt(v)
            elif isinstance(e, ast.UnaryOp) and isinstance(e.op, ast.Not):
                vt(e.operand)
        for n in ast.walk(fn):
            if isinstance(n, (ast.If, ast.While, ast.IfExp)):
                vt(n.test)
            if isinstance(n, ast.comprehension):
                for c in n.ifs:
                    vt(c)
        return out
    for f in repo.funcs_in(*prefixes):
        a = f.node.args
        for p in a.args + a.kwonlyargs:
            ann = unparse(p.annotation) if p.annotation is not None else ''
            if not (('int' in ann or 'float' in ann) and not any(x in ann for x in ('List', 'Dict', 'Tuple', 'Set', 'Iterable'))):
                continue
            # a parameter that is rebound before the test is no longer the raw argument
            rebound = any(isinstance(n, ast.Name) and n.id == p.arg and isinstance(n.ctx, ast.Store) for n in ast.walk(f.node))
            for u in uses(f.node, p.arg):
                why = TRUTHY_REVIEWED.get((f.qual, p.arg))
                chk.ob(rid, f"{f.qual}: `{p.arg}` ({ann}) is not tested by truthiness", repo.loc(f, u), why is not None or (rebound and False),
                       f"the numeric parameter `{p.arg}` of {f.name} is tested by truthiness: the legal value 0 (frame 0, index 0) is treated like a missing argument",
                       key=f"{f.qual}::truthy::{p.arg}", fn=f.qual)
    # numeric ATTRIBUTES: a constructor parameter annotated int / float that is stored as `self.A = A`; every truthiness test of `<x>.A`
    # in the given modules is an instance (the ones of the reference tree are reviewed in TRUTHY_ATTR_REVIEWED)
    num = set()
    for q, g in repo.functions.items():
        if not q.endswith('.__init__'):
            continue
        a = g.node.args
        anns = {p.arg: (unparse(p.annotation) if p.annotation is not None else '') for p in a.args + a.kwonlyargs}
        for st in ast.walk(g.node):
            if isinstance(st, ast.Assign) and len(st.targets) == 1 and isinstance(st.targets[0], ast.Attribute) and unparse(st.targets[0].value) == 'self' \
                    and isinstance(st.value, ast.Name):
                ann = anns.get(st.value.id, '')
                if ('int' in ann or 'float' in ann) and not any(x in ann for x in ('List', 'Dict', 'Tuple', 'Set', 'Iterable')):
                    num.add(st.targets[0].attr)

    def attr_uses(fn):
        out = []

        def vt(e):
            if isinstance(e, ast.Attribute) and e.attr in num:
                out.append(e)
            elif isinstance(e, ast.BoolOp):
                for v in e.values:
                    vt(v)
            elif isinstance(e, ast.UnaryOp) and isinstance(e.op, ast.Not):
                vt(e.operand)
        for n in ast.walk(fn):
            if isinstance(n, (ast.If, ast.While, ast.IfExp)):
                vt(n.test)
            if isinstance(n, ast.comprehension):
                for c in n.ifs:
                    vt(c)
        return out
    for f in repo.funcs_in(*prefixes):
        for u in attr_uses(f.node):
            why = TRUTHY_ATTR_REVIEWED.get((f.qual, u.attr))
            chk.ob(rid, f"{f.qual}: `{unparse(u)}` (numeric attribute) is not tested by truthiness", repo.loc(f, u), why is not None,
                   f"the numeric attribute `{unparse(u)}` is tested by truthiness in {f.name}: the legal value 0 (index 0, first residue) is treated like a missing value",
                   key=f"{f.qual}::truthy-attr::{u.attr}", fn=f.qual)


# ----------------------------------------------------------------------------- copy() gives the copy its own mutable containers
def copy_own_containers(chk, repo, rid, class_quals, floor=1):
    """For a class whose __init__ stores `self.a = a or set()` / `or []` / `or {}` (the attribute is a mutable container that is
    later added to in place) a `copy()` / `__copy__` that builds a new instance must hand it a NEW container: `copy.copy(self.a)`,
    `set(self.a)`, a comprehension ... - never `self.a` itself, or an in-place addition on one copy shows up in its siblings."""
    from sa import sem
    chk.rule(rid, 'R-EFFECT: copy() passes fresh copies of the mutable containers of the instance (no aliasing between sibling copies)', floor)
    FRESH = ('copy', 'deepcopy', 'set', 'list', 'dict', 'sorted', 'frozenset', 'tuple')
    for cq in class_quals:
        ci = repo.classes.get(cq)
        if ci is None:
            raise AnalysisError(f"anchor={cq}: class not found")
        init = ci.methods.get('__init__')
        cp = ci.methods.get('copy') or ci.methods.get('__copy__')
        if init is None or cp is None:
            raise AnalysisError(f"anchor={cq}: __init__ / copy not found")
        chk.uses(init, cp)
        mutable = {}
        for st in ast.walk(init.node):
            if isinstance(st, ast.Assign) and len(st.targets) == 1 and isinstance(st.targets[0], ast.Attribute) and unparse(st.targets[0].value) == 'self':
                v = st.value
                if isinstance(v, ast.BoolOp) and isinstance(v.op, ast.Or) and len(v.values) == 2 and isinstance(v.values[0], ast.Name):
                    d = v.values[1]
                    if (isinstance(d, ast.Call) and call_name(d) in ('set', 'list', 'dict') and not d.args) or (isinstance(d, (ast.List, ast.Dict, ast.Set)) and not getattr(d, 'elts', getattr(d, 'keys', []))):
                        mutable[st.targets[0].attr] = v.values[0].id
        ctor = [c for c in ast.walk(cp.node) if isinstance(c, ast.Call) and unparse(c.func) in ('self.__class__', ci.node.name, 'type(self)')]
        if len(ctor) != 1:
            chk.undecided(rid, f"{cq}.copy", cp.where, 'the constructor call of the copy was not found', key=cp.qual + '::ctor', fn=cp.qual)
            continue
        ch = sem.block_chains(cp.node)
        st_c = repo.enclosing_stmt(ctor[0])
        iparams = [a.arg for a in init.node.args.args][1:]
        for attr, param in sorted(mutable.items()):
            v = kwarg(ctor[0], param)
            if v is None and param in iparams and iparams.index(param) < len(ctor[0].args):
                v = ctor[0].args[iparams.index(param)]
            if v is None:
                continue
            e = sem.expand_names(cp.node, st_c, v, chains=ch, allow_calls=FRESH)

            def is_fresh(x):
                if isinstance(x, ast.IfExp):
                    return is_fresh(x.body) and is_fresh(x.orelse)
                if isinstance(x, ast.Call) and call_name(x) in ('set', 'list', 'dict') and not x.args:
                    return True          # a new empty container
                return (isinstance(x, ast.Call) and call_name(x) in FRESH and x.args and f'self.{attr}' in unparse(x.args[0])) or \
                    (isinstance(x, (ast.ListComp, ast.SetComp, ast.DictComp)) and f'self.{attr}' in unparse(x)) or \
                    (isinstance(x, (ast.Set, ast.List)) and any(isinstance(y, ast.Starred) for y in x.elts))
            fresh = is_fresh(e)
            chk.ob(rid, f"{cq}.copy: {param} is a fresh copy of self.{attr}", repo.loc(cp, ctor[0]), fresh,
                   f"{ci.node.name}.copy() passes `{unparse(e)}` as {param}: the copy shares the container self.{attr} with the original, so an in-place "
                   f"addition made through one copy (e.g. `{attr}.add(...)` / `.update(...)` on a traversal cursor) appears in all of them",
                   key=f"{cp.qual}::own::{attr}", fn=cp.qual)


# ----------------------------------------------------------------------------- every tryptophan gets its W>F candidate
def w2f_scan_complete(chk, repo, rid):
    """find_codon_reassignments must create a W2F candidate for EVERY 'W' of the peptide, the last residue included (the C-terminal
    peptide of an ORF, or a peptide cut in front of a Sec codon, can end in W).  At the statement that creates the candidate for the
    found index i the path conditions may say that something was found (i > -1) - they must not bound i away from the end of the
    sequence (i < len(seq) - 1 and the like).  Decided from must-facts with affine reading of the comparisons; a scan written with
    enumerate() has no such comparison at all."""
    from sa import sem
    from sa.affine import simple_aff, Aff
    chk.rule(rid, 'R-COVER: the W>F candidate scan is not cut short before the last residue', 1)
    f = repo.func('svgraph.VariantPeptideDict:VariantPeptideDict.find_codon_reassignments')
    chk.uses(f)
    sp = [a.arg for a in f.node.args.args if a.arg != 'self']
    S = sp[0] if sp else 'seq'
    ch = sem.block_chains(f.node)
    sites = sem.facts_where(f.node, lambda st: sem.own_stmt(st) and bool(sem.calls_in_stmt(st, 'create_variant_w2f')))
    if not sites:
        chk.undecided(rid, 'W>F candidate creation', f.where, 'no create_variant_w2f(...) call found', key=f.qual + '::w2f-scan', fn=f.qual)
        return
    LEN = Aff.sym(f'len({S})')
    for st, fx in sites:
        c = sem.calls_in_stmt(st, 'create_variant_w2f')[0]
        idx = c.args[1] if len(c.args) > 1 else kwarg(c, 'index')
        it = unparse(idx) if idx is not None else None
        bad = []
        lits_ = []
        for t, v in (sem.sure_literals(fx) if fx is not None else set()):
            e0 = ast.parse(t, mode='eval').body
            if isinstance(e0, ast.Compare) and len(e0.ops) > 1 and v:
                left = e0.left          # a chained comparison that holds: every link holds
                for op_, right in zip(e0.ops, e0.comparators):
                    lits_.append((unparse(ast.Compare(left=left, ops=[op_], comparators=[right])), True))
                    left = right
            else:
                lits_.append((t, v))
        for t, v in lits_:
            e = ast.parse(t, mode='eval').body
            if isinstance(e, ast.Compare) and len(e.ops) == 1 and isinstance(e.ops[0], (ast.Gt, ast.GtE)):
                e = ast.Compare(left=e.comparators[0], ops=[ast.Lt() if isinstance(e.ops[0], ast.Gt) else ast.LtE()], comparators=[e.left])
            # the other end: a fact that keeps the found index away from 0 (`0 < i`, `1 <= i`, or `i <= 0` known false)
            if isinstance(e, ast.Compare) and len(e.ops) == 1 and isinstance(e.ops[0], (ast.Lt, ast.LtE)) and it is not None:
                lc_, rc_ = e.left, e.comparators[0]
                if v and isinstance(lc_, ast.Constant) and isinstance(lc_.value, int) and unparse(rc_) == it:
                    low = lc_.value + 1 if isinstance(e.ops[0], ast.Lt) else lc_.value          # i >= low
                    if low >= 1:
                        bad.append(f"`{t}` holds: the index is kept at or above {low}")
                if not v and isinstance(rc_, ast.Constant) and isinstance(rc_.value, int) and unparse(lc_) == it:
                    low = rc_.value if isinstance(e.ops[0], ast.Lt) else rc_.value + 1          # not (i < c) -> i >= c ; not (i <= c) -> i >= c + 1
                    if low >= 1:
                        bad.append(f"`{t}` is false: the index is kept at or above {low}")
            if not (isinstance(e, ast.Compare) and len(e.ops) == 1 and isinstance(e.ops[0], (ast.Lt, ast.LtE))):
                continue
            l_ = simple_aff(sem.expand_names(f.node, st, e.left, chains=ch, allow_calls=('len',), keep=(S,)))
            r_ = simple_aff(sem.expand_names(f.node, st, e.comparators[0], chains=ch, allow_calls=('len',), keep=(S,)))
            if l_ is None or r_ is None or it is None:
                continue
            d = l_ - r_            # d < 0 / d <= 0 holds (v True) or fails (v False)
            ci = d.t.get(it, 0)
            cl = d.t.get(f'len({S})', 0)
            if ci == 0 or cl == 0:
                continue
            # normalise to  i (< | <=) len + k
            strict = isinstance(e.ops[0], ast.Lt)
            if not v:
                d, strict, ci, cl = -d, not strict, -ci, -cl          # not (d < 0)  ==  -d <= 0
            if ci == 1 and cl == -1 and len(d.t) == 2:
                k = -d.c             # i - len + c (<|<=) 0  ->  i (<|<=) len - c
                upper_excl = k if strict else k + 1      # i < len + upper_excl
                if upper_excl < 0:
                    bad.append(f"`{t}` is {v}: the index is kept below len({S}) {int(upper_excl):+d}")
        chk.ob(rid, 'a W>F candidate is created for every found tryptophan, the last residue included', repo.loc(f, st), not bad,
               '; '.join(bad) + ': a tryptophan at the first / last position of the peptide never gets its W>F form (peptides starting with W after a cleavage site; '
               'peptides ending in W: C-terminal peptide of an ORF, or a peptide cut in front of a Sec codon)', key=f.qual + '::w2f-scan', fn=f.qual)


    # the other end of the scan: the first search starts at index 0.  For every `<seq>.find('W', X)` inside a loop, X evaluated with the
    # values the names have when the loop is entered (their last assignment before the loop) is 0; no such call (enumerate / for
    # scan) = nothing to state
    finds = [c for c in ast.walk(f.node) if isinstance(c, ast.Call) and call_name(c) == 'find' and isinstance(c.func, ast.Attribute) and unparse(c.func.value) == S
             and c.args and isinstance(c.args[0], ast.Constant) and c.args[0].value == 'W']
    outside_ = [c for c in finds if not any(isinstance(a_, (ast.For, ast.While)) for a_ in repo.ancestors(c))]
    if outside_:
        finds = outside_          # the first search is executed before the loop; the ones inside resume behind a hit
    for c in finds:
        x = c.args[1] if len(c.args) > 1 else kwarg(c, 'start')
        lp = next((a_ for a_ in repo.ancestors(c) if isinstance(a_, (ast.For, ast.While))), None)
        if x is None:
            first = Aff(0)
        else:
            env = {}
            if lp is not None:
                for nm in {n.id for n in ast.walk(x) if isinstance(n, ast.Name)}:
                    d_ = sem.nearest_def(f.node, lp, nm, ch)
                    a_ = simple_aff(d_) if d_ is not None else None
                    if a_ is not None:
                        env[nm] = a_
            first = simple_aff(x, env)
        if first is None or first.t:
            chk.undecided(rid, 'W>F scan start', repo.loc(f, c), f"the start `{unparse(x) if x is not None else 0}` of the first search could not be evaluated", key=f.qual + '::w2f-scan-start', fn=f.qual)
            continue
        chk.ob(rid, 'the first search for a tryptophan starts at index 0', repo.loc(f, c), first.c == 0,
               f"the first `{unparse(c)}` starts at index {first.c}: a tryptophan at the first position of the peptide never gets its W>F form "
               '(peptides starting with W: after a cleavage site, Met-removed N-terminus)', key=f.qual + '::w2f-scan-start', fn=f.qual)


# ----------------------------------------------------------------------------- a writer / reader helper leaves its inputs as they are
def readonly_inputs(chk, repo, rid, quals, what, floor=None, include_self=False):
    """R-EFFECT: the listed functions only READ the objects they are given (annotation models, records, proteome entries).  A local that
    is bound directly to an attribute chain of a parameter or of a loop variable (`xs = model.attr`) is an ALIAS of that object's
    own list; `xs += ...`, `xs.sort()`, `xs.append(...)` ... then change the model itself.  A value built by `+`, a call, a slice or a
    comprehension is a new object and may be changed freely."""
    MUT = ('append', 'extend', 'insert', 'sort', 'reverse', 'pop', 'remove', 'clear', 'update', 'add', 'discard', 'setdefault', 'popitem')
    chk.rule(rid, f"R-EFFECT: {what}", floor if floor is not None else len(quals))
    for q in quals:
        f = repo.func(q)
        chk.uses(f)
        roots = {a.arg for a in f.node.args.args + f.node.args.kwonlyargs if a.arg not in ('self', 'cls') or (include_self and a.arg == 'self')}
        # loop variables over (attributes of) inputs are inputs too
        aroots = set()
        changed = True
        while changed:
            changed = False
            for n in ast.walk(f.node):
                if isinstance(n, (ast.For, ast.comprehension)):
                    it = n.iter
                    while isinstance(it, ast.Call) and isinstance(it.func, ast.Name) and it.func.id in ('enumerate', 'reversed', 'iter', 'zip') and it.args:
                        it = it.args[0]          # the elements are those of the first argument
                    base = it
                    while isinstance(base, (ast.Attribute, ast.Subscript)):
                        base = base.value
                    if isinstance(base, ast.Call) and isinstance(base.func, ast.Attribute) and base.func.attr in ('values', 'items', 'keys'):
                        base = base.func.value
                        while isinstance(base, (ast.Attribute, ast.Subscript)):
                            base = base.value
                    if isinstance(base, ast.Name) and base.id in roots | aroots:
                        for t in ast.walk(n.target):
                            if isinstance(t, ast.Name) and t.id not in roots:
                                roots.add(t.id)
                                changed = True
                if isinstance(n, ast.Assign) and len(n.targets) == 1 and isinstance(n.targets[0], ast.Name) and isinstance(n.value, (ast.Attribute, ast.Subscript)) \
                        and not (isinstance(n.value, ast.Subscript) and isinstance(n.value.slice, ast.Slice)):
                    b_ = n.value
                    while isinstance(b_, (ast.Attribute, ast.Subscript)):
                        b_ = b_.value
                    if isinstance(b_, ast.Name) and b_.id in roots | aroots and n.targets[0].id not in aroots:
                        aroots.add(n.targets[0].id)          # a local bound to a container of the input: its elements are the input's
                        changed = True

        def chain_root(e):
            while isinstance(e, (ast.Attribute, ast.Subscript)):
                e = e.value
            return e.id if isinstance(e, ast.Name) else None
        aliases = {}
        for n in ast.walk(f.node):
            if isinstance(n, ast.Assign) and len(n.targets) == 1 and isinstance(n.targets[0], ast.Name) and isinstance(n.value, (ast.Attribute, ast.Subscript)) \
                    and not (isinstance(n.value, ast.Subscript) and isinstance(n.value.slice, ast.Slice)) and chain_root(n.value) in roots | set(aliases):
                aliases[n.targets[0].id] = unparse(n.value)
        bad = []
        for n in ast.walk(f.node):
            tgt = None
            if isinstance(n, ast.AugAssign):
                tgt = n.target
            elif isinstance(n, ast.Call) and isinstance(n.func, ast.Attribute) and n.func.attr in MUT:
                tgt = n.func.value
            elif isinstance(n, ast.Assign):
                for t in n.targets:
                    if isinstance(t, (ast.Attribute, ast.Subscript)) and chain_root(t) in roots:
                        bad.append(f"`{norm_stmt(n)}` stores into the input")
            if tgt is None:
                continue
            if isinstance(tgt, ast.Name) and tgt.id in aliases:
                bad.append(f"`{unparse(n)[:60]}` changes `{tgt.id}`, which is `{aliases[tgt.id]}` itself (bound without a copy)")
            elif isinstance(tgt, (ast.Attribute, ast.Subscript)) and chain_root(tgt) in roots:
                bad.append(f"`{unparse(n)[:60]}` changes the input `{unparse(tgt)}` in place")
        chk.ob(rid, f"{f.qual}: inputs are only read", f.where, not bad, '; '.join(bad[:3]), key=q + '::readonly', fn=f.qual)


# ----------------------------------------------------------------------------- x[i - 1] never wraps around to the last element
def no_index_wrap(chk, repo, rid, prefixes, seq_attr='exon', floor=1):
    """`<model>.exon[i - 1]` reads the element in front of i.  For i == 0 Python does not fail: it silently returns the LAST exon.
    Every such access must therefore be reached only when i > 0 is known on the path (a dominating test or an earlier raise)."""
    from sa import sem
    chk.rule(rid, f"R-GUARD: `.{seq_attr}[i - 1]` is read only where i > 0 is known (no wrap-around to the last element)", floor)
    for f in repo.funcs_in(*prefixes):
        seen = set()
        for st, fx in sem.facts_where(f.node, lambda st: sem.own_stmt(st) or isinstance(st, (ast.If, ast.While))):
            root = st.test if isinstance(st, (ast.If, ast.While)) else st
            for n in ast.walk(root):
                if isinstance(n, ast.Subscript) and isinstance(n.value, ast.Attribute) and n.value.attr == seq_attr and isinstance(n.slice, ast.BinOp) \
                        and isinstance(n.slice.op, ast.Sub) and isinstance(n.slice.right, ast.Constant) and n.slice.right.value == 1 and id(n) not in seen:
                    seen.add(id(n))
                    X = unparse(n.slice.left)
                    ok = sem.known(fx, f'{X} > 0') is True or sem.known(fx, f'{X} <= 0') is False or sem.known(fx, f'{X} >= 1') is True \
                        or sem.known(fx, f'{X} < 1') is False or sem.known(fx, f'{X} == 0') is False and sem.known(fx, f'{X} < 0') is False
                    chk.ob(rid, f"{f.qual}: `{unparse(n)}` only where {X} > 0", repo.loc(f, n), ok,
                           f"`{unparse(n)}` is evaluated on a path where `{X} > 0` is not known: for {X} == 0 the index -1 silently selects the LAST {seq_attr} of the "
                           "transcript instead of failing, and the record is built from the wrong exon", key=f"{f.qual}::wrap::{X}", fn=f.qual)


# ----------------------------------------------------------------------------- an exclusive end is not tested with `in`
def exclusive_end_membership(chk, repo, rid, prefixes, floor=1):
    """Locations are half-open [start, end): `x.end in loc` is False for a feature that ends exactly where `loc` ends.  A membership
    test whose left side is an `.end` coordinate must therefore stand together with the explicit equality case
    (`x.end == loc.end or x.end in loc` / `x.end != loc.end and x.end not in loc`); alone it rejects the last element."""
    chk.rule(rid, 'R-KIND: an exclusive `.end` coordinate is tested for membership in a half-open location only together with the equal-ends case', floor)
    for f in repo.funcs_in(*prefixes):
        for st in ast.walk(f.node):
            tests = []
            if isinstance(st, (ast.If, ast.While, ast.IfExp)):
                tests.append(st.test)
            elif isinstance(st, ast.comprehension):
                tests += st.ifs
            elif isinstance(st, (ast.Return, ast.Assign)) and isinstance(getattr(st, 'value', None), (ast.BoolOp, ast.Compare)):
                tests.append(st.value)
            for t in tests:
                for c in ast.walk(t):
                    if isinstance(c, ast.Compare) and len(c.ops) == 1 and isinstance(c.ops[0], (ast.In, ast.NotIn)) and isinstance(c.left, ast.Attribute) and c.left.attr == 'end':
                        L, R = unparse(c.left), unparse(c.comparators[0])
                        eq = [x for x in ast.walk(t) if isinstance(x, ast.Compare) and len(x.ops) == 1 and isinstance(x.ops[0], (ast.Eq, ast.NotEq))
                              and {unparse(x.left), unparse(x.comparators[0])} in ({L, R + '.location.end'}, {L, R + '.end'})]
                        chk.ob(rid, f"{f.qual}: `{unparse(c)}` stands with the equal-ends case", repo.loc(f, c), bool(eq),
                               f"`{unparse(c)}` tests an exclusive end coordinate for membership in the half-open `{R}` without the `{L} == {R}.end` case: a feature that "
                               f"ends exactly at the end of `{R}` (the last exon of a transcript) is treated as lying outside", key=f"{f.qual}::end-in::{R}", fn=f.qual)


# ----------------------------------------------------------------------------- every own option of a command is read
def options_live(chk, repo, rid, subparser_qual, entry_qual, pkg_prefixes, floor=1, ignore=()):
    """R-OPTION: every option a command's own sub-parser defines is read (args.<dest>) in code reachable from the command's entry
    function, and the read is not inert.  An option that is accepted but no longer read silently falls back to a library default
    (e.g. `--enzyme` not handed to the filter: the miscleavage count is always tryptic)."""
    from sa import options as O
    chk.rule(rid, 'R-OPTION: every option defined by the command itself is read in reachable code', floor)
    sp = repo.func(subparser_qual)
    f = repo.func(entry_qual)
    chk.uses(sp, f)
    opts = O.cli_options(repo, sp)
    own = {d: v for d, v in opts.items() if v[1].split(':')[0].endswith(sp.module.relpath.split('/')[-1])}
    reach = O.reachable_functions(repo, f, depth=2, same_pkg_prefixes=tuple(pkg_prefixes))
    nodes = [g.node for g in reach]
    for dest, (flag, where) in sorted(own.items()):
        if dest in ignore:
            continue
        reads = O.option_reads(nodes, dest)
        live = [r for r in reads if not O.is_inert_read(repo, r)]
        chk.ob(rid, f"{flag} is read by the command", where, bool(live),
               f"option {flag} (args.{dest}) is accepted but {'never read' if not reads else 'only read inertly'} in the code of the command: its value has no effect "
               "and the library default is used instead", key=f"{entry_qual}::option::{dest}", fn=f.qual)


# ----------------------------------------------------------------------------- header entries are compared as entries, not as substrings
def no_substring_on_headers(chk, repo, rid, prefixes, attrs=('description', 'label', 'original_label'), floor=0):
    """R-KIND: a FASTA header is the delimiter-joined list of its entries.  `entry in record.description` is a SUBSTRING test on that
    string ('...|1' is a substring of '...|12'), not a test for the entry; whoever needs "is this entry already there" must split
    the header first.  Every `x in <obj>.description` (string attribute on the right) in the pool code is an instance."""
    chk.rule(rid, 'R-KIND: no substring test (`x in <record>.description`) stands in for a comparison of header entries', floor)
    n = 0
    for f in repo.funcs_in(*prefixes):
        for c in ast.walk(f.node):
            if isinstance(c, ast.Compare) and len(c.ops) == 1 and isinstance(c.ops[0], (ast.In, ast.NotIn)) and isinstance(c.comparators[0], ast.Attribute) \
                    and c.comparators[0].attr in attrs and not (isinstance(c.left, ast.Constant) and isinstance(c.left.value, str) and len(c.left.value) <= 2):
                n += 1
                chk.ob(rid, f"{f.qual}: `{unparse(c)}`", repo.loc(f, c), False,
                       f"`{unparse(c)}` is a substring test on the header string: an entry that is a textual prefix / part of another entry ('...|1' vs '...|12') counts as "
                       "present, so a header entry is dropped (or kept) by accident", key=f"{f.qual}::substring::{unparse(c.comparators[0])}", fn=f.qual)
    chk.extra['substring_tests'] = n
    # built-in positive example: the rule must recognise the construct it is about
    probe = ast.parse("def f(p, s):\n    if p.description in s.description:\n        return True\n").body[0]
    hit = [c for c in ast.walk(probe) if isinstance(c, ast.Compare) and isinstance(c.ops[0], ast.In) and isinstance(c.comparators[0], ast.Attribute) and c.comparators[0].attr in attrs]
    chk.ob(rid, 'built-in example of the construct is recognised', 'rules/shared.py', len(hit) == 1, 'self-check of the matcher failed', key=rid + '::example')


# ----------------------------------------------------------------------------- reported coordinates are converted as reported (no clamping)
def no_clamped_conversion(chk, repo, rid, quals, converter='coordinate_genomic_to_gene', floor=None):
    """R-TAINT: a genomic position that is converted to gene coordinates must be the position the tool reported (up to the fixed
    1-based / end-exclusive adjustments).  If it first goes through min() / max() / a clip against the gene or transcript bounds, an
    event that reaches across the boundary is silently shortened instead of being rejected by the boundary checks or by the
    converter's own range error.  May-taint over all assignments of the function (flow-insensitive, conservative)."""
    CLAMP = ('min', 'max', 'clip', 'clamp')
    chk.rule(rid, f"R-TAINT: no position handed to {converter}() has been clamped (min / max) against a boundary", floor if floor is not None else len(quals))
    for q in quals:
        f = repo.func(q)
        chk.uses(f)
        tainted = {}

        def dirty(e):
            for x in ast.walk(e):
                if isinstance(x, ast.Call) and call_name(x) in CLAMP:
                    return f"`{unparse(x)[:60]}`"
                if isinstance(x, ast.Name) and x.id in tainted:
                    return tainted[x.id]
            return None
        for _ in range(6):
            for n in ast.walk(f.node):
                if isinstance(n, (ast.Assign, ast.AugAssign, ast.AnnAssign)) and getattr(n, 'value', None) is not None:
                    why = dirty(n.value)
                    if why:
                        tgts = n.targets if isinstance(n, ast.Assign) else [n.target]
                        for t in tgts:
                            for nm in ast.walk(t):
                                if isinstance(nm, ast.Name) and nm.id not in tainted:
                                    tainted[nm.id] = why
        calls = [c for c in ast.walk(f.node) if isinstance(c, ast.Call) and call_name(c) == converter and c.args]
        if not calls:
            chk.undecided(rid, f"{q}: {converter} calls", f.where, f"no {converter}(...) call found", key=q + '::clamp', fn=f.qual)
            continue
        bad = [(c, dirty(c.args[0])) for c in calls if dirty(c.args[0])]
        chk.ob(rid, f"{q}: {len(calls)} converted positions are the reported ones", f.where, not bad,
               '; '.join(f"`{unparse(c.args[0])}` derives from {w}" for c, w in bad[:2]) + ': the reported span is cut to fit before the conversion, so an event '
               'touching the gene / transcript boundary is emitted truncated instead of being rejected', key=q + '::clamp', fn=f.qual)


def circ_writer(repo, wr):
    """CircRNAModel.to_string evaluated to a string template (E9): tab-separated columns, the `KEY=value` pieces of the info
    column, the value written to the start column (anchor) and the affine value of one OFFSET / LENGTH element over
    fragment = generic element of self.fragments and F0 = the start column."""
    from sa.peval import PEval, Tmpl, SymList, show as pshow
    from sa.affine import Interp, Path as APath
    from sa.model import AnalysisError
    try:
        wouts = [o for o in PEval(split_unknown=True).run(wr.node, {}) if o.kind == 'return' and '<loop not entered>' not in o.assumed]
    except (ValueError, OverflowError):
        wouts = []
    if not wouts or not all(isinstance(o.value, Tmpl) for o in wouts):
        raise AnalysisError(f"anchor={wr.qual}: to_string does not evaluate to string templates")
    from sa.affine import Aff
    variants = [_circ_variant(o.value) for o in wouts]
    for v in variants:
        if not (v['anchor_core'] == 'self.fragments[0].location.start' and v['off'] == Aff.sym('fragment.location.start') - Aff.sym('F0')
                and v['len'] == Aff.sym('fragment.location.end') - Aff.sym('fragment.location.start') and list(v['info']) == list(variants[0]['info'])
                and len(v['cols']) == 8 and [c.text for c in v['cols'][:1] + v['cols'][2:7]] == [c.text for c in variants[0]['cols'][:1] + variants[0]['cols'][2:7]]):
            return v          # the outcome (path through to_string) that deviates is the one the rules report on
    return variants[0]


def _circ_variant(tmpl):
    from sa.peval import Tmpl, SymList, show as pshow
    from sa.affine import Interp, Path as APath
    wcols = tmpl.split('\t')
    winfo = {}
    for piece in (wcols[7].split(';') if len(wcols) == 8 else []):
        if piece.parts and isinstance(piece.parts[0], str) and '=' in piece.parts[0]:
            k, rest = piece.parts[0].split('=', 1)
            winfo[k] = Tmpl([rest] + piece.parts[1:])

    def unstr(t):
        while t.startswith('str(') and t.endswith(')'):
            t = t[4:-1]
        return t

    def colval(i):
        v = wcols[i].single() if i < len(wcols) else None
        return unstr(pshow(v)) if v is not None else ''
    anchor = colval(1)
    anchor_core = anchor[4:-1] if anchor.startswith('int(') and anchor.endswith(')') else anchor
    it, p = Interp(1), APath()

    def elem_aff(key):
        v = winfo[key].single() if key in winfo else None
        if isinstance(v, SymList) and v.sep is not None:
            v = v.elt
        t = unstr(pshow(v)) if v is not None else ''
        t = t.replace('<item of self.fragments>', 'fragment')
        for a_ in (anchor, anchor_core):
            if a_:
                t = t.replace(a_, 'F0')
        try:
            return it.ev(p, ast.parse(t, mode='eval').body)
        except Exception:
            return None
    return {'cols': wcols, 'info': winfo, 'anchor': anchor, 'anchor_core': anchor_core, 'off': elem_aff('OFFSET'), 'len': elem_aff('LENGTH'),
            'colval': colval}


def reanchor_algebra(chk, repo, rid):
    """R-AFFINE: a variant that is re-anchored takes the nucleotide at the boundary of its NEW location, read off the OLD one.
    E9 evaluates the method (FeatureLocation(start=, end=) modelled as a record of its keyword arguments - Biopython stores them
    as .start / .end); a read of self.location after it was replaced therefore evaluates to the NEW value.  Obligations, over
    s, e = the location on entry:
      to_end_inclusion:   location' = [s+1, e+1);  ref' = ref[1:] + seq[e] (and alt' likewise unless Insertion): the appended index is end' - 1
      shift_deletion_up:  location' = [s-1, e);    ref' = seq[s-1]: the index is start'"""
    import re
    from sa.peval import PEval, Rec, show as pshow
    from sa.affine import simple_aff, Aff
    chk.rule(rid, 'R-AFFINE: re-anchoring a variant shifts its location by one and takes the nucleotide at the new boundary', 4)
    S, E = Aff.sym('self.location.start'), Aff.sym('self.location.end')

    def aff_of(v):
        try:
            return simple_aff(ast.parse(pshow(v), mode='eval').body) if v is not None else None
        except SyntaxError:
            return None

    def idx_of(text, seqname):
        m = re.findall(re.escape(seqname) + r'\.seq\[([^\[\]]+)\]', text)
        out = []
        for t in m:
            try:
                out.append(simple_aff(ast.parse(t, mode='eval').body))
            except SyntaxError:
                out.append(None)
        return out
    for name, seqname, d_start, d_end, fields in (('to_end_inclusion', 'seq', 1, 1, ('self.ref', 'self.alt')), ('shift_deletion_up', 'tx_seq', -1, 0, ('self.ref',))):
        f = repo.func('seqvar.VariantRecord:VariantRecord.' + name)
        chk.uses(f)
        try:
            outs = [o for o in PEval(split_unknown=True, records={'FeatureLocation'}).run(f.node, {}) if o.kind != 'raise']
        except (ValueError, OverflowError) as e_:
            chk.undecided(rid, name, f.where, f"{name} cannot be evaluated: {e_}", key=f"{f.qual}::reanchor", fn=f.qual)
            continue
        if not outs:
            chk.undecided(rid, name, f.where, f"{name} has no normal outcome", key=f"{f.qual}::reanchor", fn=f.qual)
            continue
        ok_loc, ok_idx, detail = True, True, ''
        for o in outs:
            loc = o.env.get('self.location')
            ns, ne = (aff_of(loc.fields.get('start')), aff_of(loc.fields.get('end'))) if isinstance(loc, Rec) else (None, None)
            if ns != S + Aff(d_start) or ne != E + Aff(d_end):
                ok_loc = False
                detail = f"location' = [{ns!r}, {ne!r})"
            want = (ne - Aff(1)) if name == 'to_end_inclusion' else ns
            insertion = o.assumed.get("self.type == 'Insertion'")
            if insertion is None and "self.type != 'Insertion'" in o.assumed:
                insertion = not o.assumed["self.type != 'Insertion'"]
            for fld in fields:
                v = o.env.get(fld)
                if v is None:
                    if fld == 'self.alt' and insertion is True:
                        continue          # the alt of an insertion is symbolic and stays
                    ok_idx = False
                    detail = f"{fld} is not rebuilt"
                    continue
                ix = idx_of(pshow(v), seqname)
                if len(ix) != 1 or ix[0] is None or want is None or ix[0] != want:
                    ok_idx = False
                    detail = f"{fld}' = {pshow(v)[:80]} (index {ix}, boundary of the new location {want!r})"
        chk.ob(rid, f"{name}: the location moves by ({d_start:+d}, {d_end:+d})", f.where, ok_loc, f"{name}: {detail}", key=f"{f.qual}::new-location", fn=f.qual)
        chk.ob(rid, f"{name}: the nucleotide taken from the sequence is the one at the boundary of the new location", f.where, ok_idx,
               f"{name}: {detail} - the variant is rebuilt with a nucleotide one position off, so the allele it inserts spells a different codon",
               key=f"{f.qual}::boundary-nucleotide", fn=f.qual)


def slice_keeps_own_fields(chk, repo, rid, floor=5):
    """R-KEYS: a slice of a record is a record of the same class with every field of its own constructor carried over.
    Instances = classes whose own __init__ has keyword-only parameters and whose __getitem__ builds self.__class__(...) (directly
    or through a method of the class it returns from).  Obligation per keyword-only parameter: the constructor call of the slice
    passes it; every one except `locations` (recomputed for the slice) is passed from the same attribute of self."""
    chk.rule(rid, 'R-KEYS: x[i:j] of a coordinate-carrying record passes every own constructor field on to the slice', floor)

    def ctor_calls(cls_q, fn, depth=0):
        out = []
        for r_ in [n for n in walk_no_nested(fn.node) if isinstance(n, ast.Return) and n.value is not None]:
            v = r_.value
            if isinstance(v, ast.Name):
                ds = [a.value for a in walk_no_nested(fn.node) if isinstance(a, ast.Assign) and len(a.targets) == 1 and unparse(a.targets[0]) == v.id]
                v = ds[-1] if len(ds) == 1 else v
            if isinstance(v, ast.Call) and unparse(v.func) == 'self.__class__':
                out.append((fn, v, {}))
            elif isinstance(v, ast.Call) and isinstance(v.func, ast.Attribute) and unparse(v.func.value) == 'self' and depth < 2:
                q = f"{cls_q}.{v.func.attr}"
                if q in repo.functions:
                    h = repo.func(q)
                    for (f2, c2, _b) in ctor_calls(cls_q, h, depth + 1):
                        out.append((f2, c2, {'via': v}))
        return out
    for q, f in sorted(repo.functions.items()):
        if not q.endswith('.__getitem__'):
            continue
        cls_q = q[:-len('.__getitem__')]
        if cls_q + '.__init__' not in repo.functions:
            continue
        init = repo.func(cls_q + '.__init__')
        own = [a.arg for a in init.node.args.kwonlyargs]
        if not own:
            continue
        calls = ctor_calls(cls_q, f)
        if not calls:
            continue
        chk.uses(f, init)
        for k in own:
            ok = True
            for (f2, c, _b) in calls:
                v = kwarg(c, k)
                ok = ok and v is not None and (k == 'locations' or f"self.{k}" in unparse(v))
            chk.ob(rid, f"{cls_q.split(':')[1]}[...] passes `{k}` to the slice", f.where, ok,
                   f"the record built for a slice does not receive `{k}` from self.{k}: the slice silently loses it "
                   "(e.g. the selenocysteine positions of a transcript prefix used for a fusion)", key=f"{q}::{k}", fn=f.qual)


def copy_scalar_fields(chk, repo, rid, class_quals, floor=1):
    """R-KEYS: copy() hands every plain field on verbatim.  Fields = parameters P of the class's __init__ that it stores as
    `self.P = P` (discovered).  Obligation per field: the constructor call of copy() passes P, and the value (locals expanded)
    is `self.P` itself - not a value narrowed by a condition, a default or another field."""
    from sa import sem
    chk.rule(rid, 'R-KEYS: copy() passes every plain field of the instance on unchanged', floor)
    for cq in class_quals:
        ci = repo.classes.get(cq)
        init = ci.methods.get('__init__') if ci else None
        cp = (ci.methods.get('copy') or ci.methods.get('__copy__')) if ci else None
        if init is None or cp is None:
            raise AnalysisError(f"anchor={cq}: __init__ / copy not found")
        chk.uses(init, cp)
        params = [a.arg for a in init.node.args.args][1:] + [a.arg for a in init.node.args.kwonlyargs]
        plain = [st.targets[0].attr for st in walk_no_nested(init.node)
                 if isinstance(st, ast.Assign) and len(st.targets) == 1 and isinstance(st.targets[0], ast.Attribute) and unparse(st.targets[0].value) == 'self'
                 and isinstance(st.value, ast.Name) and st.value.id == st.targets[0].attr and st.value.id in params]
        ctor = [c for c in ast.walk(cp.node) if isinstance(c, ast.Call) and unparse(c.func) in ('self.__class__', ci.node.name, 'type(self)')]
        if len(ctor) != 1:
            chk.undecided(rid, f"{cq}.copy", cp.where, 'the constructor call of the copy was not found', key=cp.qual + '::ctor', fn=cp.qual)
            continue
        ch = sem.block_chains(cp.node)
        st_c = repo.enclosing_stmt(ctor[0])
        pos = [a.arg for a in init.node.args.args][1:]
        for fld in plain:
            v = kwarg(ctor[0], fld)
            if v is None and fld in pos and pos.index(fld) < len(ctor[0].args):
                v = ctor[0].args[pos.index(fld)]
            e = sem.expand_names(cp.node, st_c, v, chains=ch) if v is not None else None
            ok = e is not None and unparse(e) == f"self.{fld}"
            chk.ob(rid, f"{ci.node.name}.copy passes {fld}=self.{fld}", repo.loc(cp, ctor[0]), ok,
                   f"copy() hands `{fld}` on as `{unparse(e) if e is not None else '<default>'}` instead of self.{fld}: the copy differs from the node it was made from",
                   key=f"{cp.qual}::field::{fld}", fn=cp.qual)


def converted_per_line(chk, repo, rid, qual, conv='convert_to_variant_record', floor=1):
    """R-FRESH: in a parser CLI the record filed for an input line is the conversion of THAT line.  Instances = the loops of the
    function whose body calls <loop variable>.<conv>(...).  Obligation (bounded iteration paths): every iteration that files
    something (append / add / extend on a collection, or an item store) has executed <loop variable>.<conv>(...) - no iteration
    files a value taken from an earlier line (memo keyed on part of the record)."""
    from sa.cfg import CFG, iteration_paths
    chk.rule(rid, f"R-FRESH: every record filed by an iteration comes from {conv}() of that iteration's own input record", floor)
    f = repo.func(qual)
    chk.uses(f)
    cfg = CFG(f.node)
    n_inst = 0
    for lp in [l for l in ast.walk(f.node) if isinstance(l, ast.For) and isinstance(l.target, ast.Name)]:
        tg = lp.target.id
        convs = [c for c in ast.walk(lp) if isinstance(c, ast.Call) and call_name(c) == conv and isinstance(c.func, ast.Attribute) and unparse(c.func.value) == tg]
        if not convs:
            continue
        n_inst += 1
        conv_stmts = {id(repo.enclosing_stmt(c)) for c in convs}
        inner = [l2 for l2 in ast.walk(lp) if isinstance(l2, (ast.For, ast.While)) and l2 is not lp]
        bad = None
        n_p = 0
        for pth in iteration_paths(cfg, lp, max_paths=4000):
            if pth.end_kind() not in ('back', 'continue'):
                continue
            n_p += 1
            nodes = [n for n in pth.nodes() if n.kind == 'stmt']
            files = [n for n in nodes if isinstance(n.ast, ast.Expr) and isinstance(n.ast.value, ast.Call) and call_name(n.ast.value) in ('append', 'add', 'extend')
                     and n.ast.value.args and not isinstance(n.ast.value.args[0], (ast.Constant, ast.List, ast.Dict, ast.Set, ast.Tuple))]
            # the conversion must have COMPLETED in this iteration: leaving its statement through an exception edge does not count
            done_conv = any(cfg.nodes[nid_].kind == 'stmt' and id(cfg.nodes[nid_].ast) in conv_stmts and lab_ != 'exc' for (nid_, lab_, _y) in pth.steps)
            if files and not done_conv:
                bad = bad or pth
        chk.paths += n_p
        chk.ob(rid, f"{f.name}: an iteration of `for {tg} in ...` that files a record has converted {tg}", repo.loc(f, lp), n_p > 0 and bad is None,
               f"an iteration files a record without calling {tg}.{conv}(): the value comes from an earlier line (per-transcript checks of the conversion are skipped)",
               key=f"{f.qual}::{tg}::converted-per-line", path=bad.describe(f.module.relpath) if bad else None, fn=f.qual)
    if not n_inst:
        chk.undecided(rid, f"{f.name}: conversion loop", f.where, f"no loop calling <loop variable>.{conv}() found", key=f"{f.qual}::converted-per-line", fn=f.qual)


def loop_own_exits(loop):
    """break statements whose innermost enclosing loop is `loop`, and return statements anywhere inside it"""
    out = []

    def rec(node, depth_loop):
        for ch in ast.iter_child_nodes(node):
            if isinstance(ch, (ast.FunctionDef, ast.AsyncFunctionDef, ast.Lambda, ast.ClassDef)):
                continue
            if isinstance(ch, ast.Return):
                out.append(ch)
            elif isinstance(ch, ast.Break) and depth_loop == 0:
                out.append(ch)
            if isinstance(ch, (ast.For, ast.While)):
                for b in ch.body:
                    rec_stmt(b, depth_loop + 1)
                for b in ch.orelse:
                    rec_stmt(b, depth_loop)
            else:
                rec(ch, depth_loop)

    def rec_stmt(st, d):
        if isinstance(st, ast.Return):
            out.append(st)
        elif isinstance(st, ast.Break) and d == 0:
            out.append(st)
        elif isinstance(st, (ast.For, ast.While)):
            for b in st.body:
                rec_stmt(b, d + 1)
            for b in st.orelse:
                rec_stmt(b, d)
        else:
            rec(st, d)
    for b in loop.body:
        rec_stmt(b, 0)
    return out


def lazy_cache_starts_empty(chk, repo, rid, mod_prefixes, floor=1):
    """R-FRESH: an attribute that a method fills lazily (`if self.A is None: self.A = <computed from the object>`) is a cache of a
    derived quantity; the constructor must start it empty (`self.A = None`) so that what the cache holds is always what the
    method computes - a value handed in from outside can disagree with the object (a running total that missed an element).
    Instances are discovered: every (class, attribute) with such a guarded fill."""
    chk.rule(rid, 'R-FRESH: lazily filled caches of derived values are initialised empty by the constructor (never supplied by the caller)', floor)
    for cq, ci in sorted(repo.classes.items()):
        if not any(ci.module.modname == m or ci.module.modname.startswith(m + '.') or ci.module.modname.startswith(m) for m in mod_prefixes):
            continue
        init = ci.methods.get('__init__')
        if init is None:
            continue
        for mname, m in ci.methods.items():
            if mname == '__init__':
                continue
            for i in [x for x in ast.walk(m.node) if isinstance(x, ast.If)]:
                t = unparse(i.test)
                mm = re.fullmatch(r'self\.(\w+) is None', t)
                if not mm:
                    continue
                attr = mm.group(1)
                if not any(isinstance(a, ast.Assign) and unparse(a.targets[0]) == f"self.{attr}" for a in i.body):
                    continue
                inits = [a for a in walk_no_nested(init.node) if isinstance(a, (ast.Assign, ast.AnnAssign))
                         and unparse(a.targets[0] if isinstance(a, ast.Assign) else a.target) == f"self.{attr}"]
                if not inits:
                    continue
                chk.uses(init, m)
                ok = all(isinstance(a.value, ast.Constant) and a.value.value is None for a in inits)
                chk.ob(rid, f"{ci.node.name}.{attr} (filled lazily by {mname}) starts as None", repo.loc(init, inits[0]), ok,
                       f"{ci.node.name}.__init__ sets the cache `{attr}` to `{unparse(inits[0].value)}`: the value {mname}() would compute from the object can be bypassed by "
                       "a value computed elsewhere", key=f"{cq}::{attr}::cache-starts-empty", fn=init.qual)


def sec_shift_before_growth(chk, repo, rid):
    """R-ORDER: in join_miscleaved_peptides the Sec positions of node i are shifted by the length of what was joined BEFORE node i: the
    statement that reads the running length in `.shift(<size>)` comes before the statement that adds the node's own length to it, in the
    same block (both are executed once per node)."""
    chk.rule(rid, 'R-ORDER: Sec positions of a node are shifted by the length joined so far, before the node\'s own length is added', 1)
    f = repo.func('svgraph.VariantPeptideDict:MiscleavedNodes.join_miscleaved_peptides')
    chk.uses(f)
    shifts = [c for c in ast.walk(f.node) if isinstance(c, ast.Call) and call_name(c) == 'shift' and len(c.args) == 1 and isinstance(c.args[0], ast.Name)]
    if not shifts:
        chk.undecided(rid, 'Sec shift', f.where, 'no `<sec>.shift(<running length>)` found in join_miscleaved_peptides', key=f.qual + '::sec-shift-order', fn=f.qual)
        return
    ok = True
    detail = ''
    for c in shifts:
        size = c.args[0].id
        st = repo.enclosing_stmt(c)
        # climb to the statement of the innermost enclosing loop body that contains the shift
        loop = next((a for a in repo.ancestors(c) if isinstance(a, (ast.For, ast.While))), None)
        if loop is None:
            ok, detail = False, 'the shift is not inside the loop over the nodes'
            continue
        top = st
        while repo.parent(top) is not loop and repo.parent(top) is not None:
            top = repo.parent(top)
        grow = [i for i, s_ in enumerate(loop.body) if isinstance(s_, ast.AugAssign) and isinstance(s_.op, ast.Add) and unparse(s_.target) == size]
        if top not in loop.body or len(grow) != 1:
            ok, detail = False, f"`{size} += ...` is not a single statement of the node loop next to the shift"
            continue
        if loop.body.index(top) > grow[0]:
            ok, detail = False, f"`{unparse(c)}` is evaluated after `{unparse(loop.body[grow[0]])}`: the Sec positions of a node are shifted by a length that already includes the node itself"
    chk.ob(rid, 'x.shift(size) precedes size += len(node) in the node loop', f.where, ok,
           detail + ' (the Sec-terminated peptide is cut one node too far: it still contains U and the real truncated peptide is never produced)',
           key=f.qual + '::sec-shift-order', fn=f.qual)


def w2f_tail_guard(chk, repo, rid):
    """R-AFFINE: the W>F substitution rebuilds the peptide as seq[:start] + alt + seq[end:]; the tail is skipped only when it is empty,
    i.e. the guard of the tail append is `end < len(seq)` (any affine spelling) - not a tighter bound that drops the last residue."""
    from sa.affine import simple_aff, Aff
    chk.rule(rid, 'R-AFFINE: the tail of a W>F substituted peptide is appended whenever it is non-empty (guard end < len(seq))', 1)
    f = repo.func('svgraph.VariantPeptideDict:VariantPeptideDict.translational_modification')
    chk.uses(f)
    seqp = [a.arg for a in f.node.args.args if a.arg != 'self']
    sites = []
    for n in ast.walk(f.node):
        tests = []
        if isinstance(n, ast.If):
            tests = [(n.test, n.body)]
        elif isinstance(n, ast.IfExp):
            tests = [(n.test, [n.body])]
        for t, body in tests:
            if isinstance(t, ast.Compare) and len(t.ops) == 1 and isinstance(t.ops[0], (ast.Lt, ast.LtE, ast.Gt, ast.GtE)) \
                    and any(isinstance(x, ast.Subscript) and isinstance(x.slice, ast.Slice) and x.slice.upper is None and x.slice.lower is not None
                            and unparse(x.slice.lower).endswith('location.end') for b in body for x in ast.walk(b)):
                sites.append(t)
    if not sites:
        chk.undecided(rid, 'W>F tail guard', f.where, 'no guarded `seq[<variant>.location.end:]` tail found', key=f.qual + '::tail-guard', fn=f.qual)
        return
    for t in sites:
        l_, r_ = simple_aff(t.left), simple_aff(t.comparators[0])
        op = type(t.ops[0]).__name__
        ok = False
        if l_ is not None and r_ is not None:
            d = l_ - r_ if op in ('Lt', 'LtE') else r_ - l_          # d (<|<=) 0
            strict = op in ('Lt', 'Gt')
            ends = [k for k in d.t if k.endswith('location.end')]
            lens = [k for k in d.t if k.startswith('len(')]
            if len(ends) == 1 and len(lens) == 1 and d.t[ends[0]] == 1 and d.t[lens[0]] == -1 and len(d.t) == 2:
                # end - len + c (<|<=) 0   <=>   end < len - c (+1 if <=)
                bound = -d.c + (0 if strict else 1)          # end < len + bound
                ok = bound == 0
        chk.ob(rid, 'tail appended iff end < len(seq)', repo.loc(f, t), ok,
               f"the tail of the substituted peptide is appended under `{unparse(t)}`: when the reassigned W is the second-to-last residue the last residue is dropped "
               "(the W>F form is not a form of any peptide of the run without the option)", key=f.qual + '::tail-guard', fn=f.qual)


def no_stale_loop_locals(chk, repo, rid, qual, loop_pick, what, floor=1, reviewed=None):
    """R-FRESH: inside the chosen loop, a plain local that the loop body assigns (per-element state: a flag, an id parsed from the
    element) is assigned in THIS iteration on every path before it is read - otherwise an element that takes a path without the
    assignment is processed with the value left behind by the previous element.  Accumulators are not per-element state and are
    skipped: names updated with an augmented assignment, read in their own right-hand side, or used as a receiver of a method call /
    subscript store.  Decided by a forward must-assigned analysis over one iteration (sem.must_set_flow on the loop body)."""
    from sa import sem
    import copy as _cp
    chk.rule(rid, f"R-FRESH: per-element locals of {what} are assigned in every iteration before they are read", floor)
    f = repo.func(qual)
    chk.uses(f)
    loops = [l for l in ast.walk(f.node) if isinstance(l, (ast.For, ast.While)) and loop_pick(l)]
    if len(loops) != 1:
        chk.undecided(rid, what, f.where, f"{len(loops)} candidate loops found", key=f"{f.qual}::stale-locals", fn=f.qual)
        return
    lp = loops[0]
    body = lp.body
    stored = {t.id for st in ast.walk(lp) if isinstance(st, (ast.Assign, ast.AnnAssign)) and getattr(st, 'value', None) is not None
              for t in ast.walk(st.targets[0] if isinstance(st, ast.Assign) else st.target) if isinstance(t, ast.Name) and isinstance(t.ctx, ast.Store)}
    tg = {t.id for t in ast.walk(lp.target) if isinstance(t, ast.Name)} if isinstance(lp, ast.For) else set()
    accum = set()
    for n in ast.walk(lp):
        if isinstance(n, ast.AugAssign) and isinstance(n.target, ast.Name):
            accum.add(n.target.id)
        if isinstance(n, ast.Assign) and len(n.targets) == 1 and isinstance(n.targets[0], ast.Name) and any(isinstance(x, ast.Name) and x.id == n.targets[0].id for x in ast.walk(n.value)):
            accum.add(n.targets[0].id)
        if isinstance(n, ast.Call) and isinstance(n.func, ast.Attribute) and isinstance(n.func.value, ast.Name) and n.func.attr in ('append', 'add', 'extend', 'update', 'setdefault', 'appendleft'):
            accum.add(n.func.value.id)
        if isinstance(n, ast.Subscript) and isinstance(n.ctx, ast.Store) and isinstance(n.value, ast.Name):
            accum.add(n.value.id)
        if isinstance(n, (ast.For, ast.comprehension)) and n is not lp:
            accum |= {t.id for t in ast.walk(n.target) if isinstance(t, ast.Name)}          # inner loop variables are bound by their loop
        if isinstance(n, ast.ExceptHandler) and n.name:
            accum.add(n.name)
        if isinstance(n, ast.withitem) and n.optional_vars is not None:
            accum |= {t.id for t in ast.walk(n.optional_vars) if isinstance(t, ast.Name)}
    # a While loop whose driver is re-bound at the end of the body (`x = next(it, None)`) carries x on purpose
    if isinstance(lp, ast.While):
        accum |= {n.id for n in ast.walk(lp.test) if isinstance(n, ast.Name)}
    cands = sorted(stored - tg - accum - set(reviewed or {}))
    syn = ast.parse('def _it():\n    for _e in _es:\n        pass').body[0]
    syn.body[0].body = _cp.deepcopy(body)
    ast.fix_missing_locations(syn)
    stale = []
    for v in cands:
        def tr(st_, S, v=v):
            if isinstance(st_, (ast.Assign, ast.AnnAssign)) and getattr(st_, 'value', None) is not None and \
                    any(isinstance(t, ast.Name) and t.id == v and isinstance(t.ctx, ast.Store) for t in ast.walk(st_.targets[0] if isinstance(st_, ast.Assign) else st_.target)):
                return frozenset(S | {'set'})
            return S
        cfg_s, st_s = sem.must_set_flow(syn, tr)
        for n_ in cfg_s.nodes:
            if n_.ast is None or n_.kind not in ('stmt', 'test', 'iter'):
                continue
            S = st_s.get(n_.id)
            if S is None or 'set' in S:
                continue
            if n_.kind == 'stmt' and not isinstance(n_.ast, (ast.Assign, ast.AnnAssign, ast.AugAssign, ast.Expr, ast.Return, ast.Raise, ast.Assert, ast.Delete)):
                continue
            root_ = n_.ast.iter if n_.kind == 'iter' else n_.ast
            if n_.kind == 'iter' and n_.ast is syn.body[0]:
                continue
            reads = [x for x in ast.walk(root_) if isinstance(x, ast.Name) and x.id == v and isinstance(x.ctx, ast.Load)]
            if reads:
                stale.append(f"{v} (read at line {getattr(n_.ast, 'lineno', '?')} of the loop body)")
                break
    chk.ob(rid, f"{f.name}: every per-element local is assigned before it is read in each iteration", repo.loc(f, lp), not stale,
           f"{sorted(stale)} can be read in an iteration that did not assign it: the element is processed with the value left behind by the previous element",
           key=f"{f.qual}::stale-locals", fn=f.qual)


def fresh_buffer_per_combination(chk, repo, rid):
    """R-FRESH: every W>F combination is applied to the ORIGINAL peptide.  In VariantPeptideDict.translational_modification the object
    that the substitutions of one combination are written into (by item assignment, or rebuilt and re-bound) is created inside the loop
    over the combinations - a buffer created outside and overwritten by index carries the substitutions of earlier combinations."""
    chk.rule(rid, 'R-FRESH: the peptide buffer a W>F combination is applied to is created per combination', 1)
    f = repo.func('svgraph.VariantPeptideDict:VariantPeptideDict.translational_modification')
    chk.uses(f)
    comb_loops = [l for l in ast.walk(f.node) if isinstance(l, ast.For) and any(isinstance(c, ast.Call) and call_name(c) == 'combinations' for c in ast.walk(l.iter))]
    if len(comb_loops) != 1:
        chk.undecided(rid, 'W>F combinations', f.where, f"{len(comb_loops)} loops over itertools.combinations(...) found", key=f.qual + '::fresh-buffer', fn=f.qual)
        return
    lp = comb_loops[0]
    bad = []
    for n in ast.walk(lp):
        if isinstance(n, ast.Subscript) and isinstance(n.ctx, ast.Store) and isinstance(n.value, ast.Name):
            x = n.value.id
            created_inside = any(isinstance(a, (ast.Assign, ast.AnnAssign)) and any(isinstance(t, ast.Name) and t.id == x and isinstance(t.ctx, ast.Store)
                                                                                   for t in ast.walk(a.targets[0] if isinstance(a, ast.Assign) else a.target))
                                 for a in ast.walk(lp))
            if not created_inside:
                bad.append(f"`{unparse(repo.enclosing_stmt(n))[:60]}` writes into `{x}`, which is created outside the loop over the combinations")
    chk.ob(rid, 'item assignments inside the combination loop go to an object created inside it', repo.loc(f, lp), not bad,
           '; '.join(bad[:2]) + ': each combination starts from the result of the previous ones (forms that keep an earlier W are never produced, labels name too few W2F ids)',
           key=f.qual + '::fresh-buffer', fn=f.qual)


def iterable_param_once(chk, repo, rid, qual):
    """R-ONESHOT: a parameter annotated Iterable / Iterator may be a generator; a function that iterates it more than once (two loops,
    a loop and a comprehension, list() twice) sees nothing the second time."""
    chk.rule(rid, 'R-ONESHOT: a parameter declared Iterable is iterated at most once', 1)
    f = repo.func(qual)
    chk.uses(f)
    n_inst = 0
    for a in f.node.args.args + f.node.args.kwonlyargs:
        ann = unparse(a.annotation) if a.annotation is not None else ''
        if not ann.startswith(('Iterable', 'Iterator', 'typing.Iterable', 'typing.Iterator')):
            continue
        n_inst += 1
        uses = [n for n in ast.walk(f.node) if (isinstance(n, (ast.For, ast.comprehension)) and isinstance(n.iter, ast.Name) and n.iter.id == a.arg)
                or (isinstance(n, ast.Call) and isinstance(n.func, ast.Name) and n.func.id in ('list', 'tuple', 'sorted', 'set', 'sum', 'any', 'all', 'max', 'min')
                    and n.args and isinstance(n.args[0], ast.Name) and n.args[0].id == a.arg)]
        rebound = any(isinstance(n, ast.Name) and n.id == a.arg and isinstance(n.ctx, ast.Store) for n in ast.walk(f.node))
        chk.ob(rid, f"{f.name}: `{a.arg}` ({ann}) is consumed once", f.where, len(uses) <= 1 or rebound,
               f"`{a.arg}` is declared {ann} but iterated {len(uses)} times in {f.name}: a generator argument is exhausted by the first pass and the later pass sees nothing "
               "(a header with no records)", key=f"{f.qual}::oneshot::{a.arg}", fn=f.qual)
    if not n_inst:
        chk.undecided(rid, f"{f.name}: Iterable parameters", f.where, 'no parameter annotated Iterable / Iterator', key=f"{f.qual}::oneshot", fn=f.qual)


def no_symbol_keys(chk, repo, rid, prefixes):
    """R-KEYS: gene SYMBOLS (`gene_name`) are display names, not identifiers - several genes share one (PAR_Y copies, Y_RNA, a GTF
    without gene_name gives '' for every gene).  No mapping in the parsers / their CLIs is indexed, looked up or membership-tested
    with `<x>.gene_name`; caches are keyed by gene_id / transcript_id.  Expected count on the reference tree: zero; the matcher is
    exercised on a built-in positive example on every run."""
    def hits(tree):
        out = []
        for n in ast.walk(tree):
            key = None
            if isinstance(n, ast.Subscript) and not isinstance(n.slice, ast.Slice):
                key = n.slice
            elif isinstance(n, ast.Call) and isinstance(n.func, ast.Attribute) and n.func.attr in ('get', 'setdefault', 'pop') and n.args:
                key = n.args[0]
            elif isinstance(n, ast.Compare) and len(n.ops) == 1 and isinstance(n.ops[0], (ast.In, ast.NotIn)):
                key = n.left
            if key is not None and any(isinstance(x, ast.Attribute) and x.attr == 'gene_name' for x in ast.walk(key)):
                out.append(n)
        return out
    chk.rule(rid, 'R-KEYS: no mapping is keyed by a gene symbol (gene_name); identifiers key the caches', 0)
    probe = ast.parse("def f(c, g):\n    if g.gene_name in c:\n        return c[g.gene_name]\n    return c.get(g.gene_name)")
    if len(hits(probe)) != 3:
        raise AnalysisError(f"rule {rid}: built-in example of the symbol-key matcher no longer behaves as expected")
    for f in repo.funcs_in(*prefixes):
        for n in hits(f.node):
            chk.ob(rid, f"{f.qual}: `{unparse(n)[:50]}` is not keyed by a gene symbol", repo.loc(f, n), False,
                   f"`{unparse(n)[:70]}` uses a gene symbol as a mapping key: genes that share a symbol (PAR_Y copies, repeated names, '' when the GTF has no gene_name) collide - "
                   "a later gene receives what was cached for the first one", key=f"{f.qual}::symbol-key", fn=f.qual)
        chk.functions.add(f.qual)


_MUT_CTORS = ('dict', 'list', 'set', 'deque', 'defaultdict', 'OrderedDict', 'Counter', 'collections.deque', 'collections.defaultdict',
              'collections.OrderedDict', 'collections.Counter', 'bytearray')
_MUT_METHODS = ('append', 'appendleft', 'extend', 'extendleft', 'add', 'update', 'pop', 'popleft', 'popitem', 'remove', 'discard', 'clear',
                'insert', 'setdefault', 'sort', 'reverse', 'rotate', '__setitem__', '__delitem__')


def _self_inplace_attrs(fnode) -> set:
    """attributes of `self` that the function changes in place: self.A[k] = v, del self.A[k], self.A.<mutator>(...), self.A op= v on a container"""
    out = set()

    def self_attr(e):
        return e.attr if isinstance(e, ast.Attribute) and isinstance(e.value, ast.Name) and e.value.id == 'self' else None
    for n in walk_no_nested(fnode):
        if isinstance(n, (ast.Assign, ast.AugAssign, ast.AnnAssign, ast.Delete)):
            tgs = n.targets if isinstance(n, (ast.Assign, ast.Delete)) else [n.target]
            for t in tgs:
                if isinstance(t, ast.Subscript) and self_attr(t.value):
                    out.add(self_attr(t.value))
        if isinstance(n, ast.Call) and isinstance(n.func, ast.Attribute) and n.func.attr in _MUT_METHODS and self_attr(n.func.value):
            out.add(self_attr(n.func.value))
    return out


def instance_state_per_instance(chk, repo, rid, mod_prefixes, floor=1):
    """R-FRESH (object scope): a container attribute that methods change in place through `self` (a cache of loaded models, its
    eviction queue) is state of ONE object.  Python gives every instance the same object when the container is bound in the class
    body and no constructor rebinds it, so two annotations / parsers alive in one process would serve each other's entries.
    Instances are discovered: every (class, attribute) changed in place through self by a method of the class or of a base.
    Discharged when a constructor of the MRO binds `self.A`, or when no class body of the MRO binds A to a mutable container."""
    chk.rule(rid, 'R-FRESH: containers changed in place through self are bound per instance by a constructor, never only in the class body', floor)
    for cq, ci in sorted(repo.classes.items()):
        if not any(ci.module.modname == m or ci.module.modname.startswith(m + '.') for m in mod_prefixes):
            continue
        mro = repo.mro(ci)
        mutated = {}
        for c in mro:
            for mname, m in c.methods.items():
                for a in _self_inplace_attrs(m.node):
                    mutated.setdefault(a, m)
        for attr, m in sorted(mutated.items()):
            bound_init, bound_other, class_mut = None, None, None
            for c in mro:
                for mname, mm in c.methods.items():
                    for a in walk_no_nested(mm.node):
                        if isinstance(a, (ast.Assign, ast.AnnAssign)) and getattr(a, 'value', None) is not None:
                            for t in (a.targets if isinstance(a, ast.Assign) else [a.target]):
                                for tt in (t.elts if isinstance(t, (ast.Tuple, ast.List)) else [t]):
                                    if unparse(tt) == f"self.{attr}":
                                        if mname in ('__init__', '__new__', '__post_init__'):
                                            bound_init = bound_init or mm
                                        else:
                                            bound_other = bound_other or mm
                for st in c.node.body:
                    if isinstance(st, (ast.Assign, ast.AnnAssign)) and getattr(st, 'value', None) is not None:
                        tg = st.targets[0] if isinstance(st, ast.Assign) else st.target
                        if isinstance(tg, ast.Name) and tg.id == attr:
                            v = st.value
                            if isinstance(v, (ast.Dict, ast.List, ast.Set, ast.DictComp, ast.ListComp, ast.SetComp)) or \
                                    (isinstance(v, ast.Call) and call_name(v) in _MUT_CTORS):
                                class_mut = class_mut or (c, st)
            if class_mut is None and bound_init is None:
                continue        # bound elsewhere (slots of a builtin base, another method): nothing shared by construction
            chk.uses(m)
            chk.functions.add(m.qual)
            key = f"{cq}::{attr}::per-instance"
            if class_mut is not None and bound_init is None and bound_other is not None:
                chk.undecided(rid, f"{ci.node.name}.{attr} bound per instance", repo.loc(class_mut[0].module, class_mut[1]),
                              f"{ci.node.name}.{attr} is a mutable class attribute rebound only by {bound_other.qual}: whether every instance rebinds it before use is not decided", key=key, fn=m.qual)
                continue
            where = repo.loc(class_mut[0].module, class_mut[1]) if class_mut and bound_init is None else (bound_init.where if bound_init else m.where)
            chk.ob(rid, f"{ci.node.name}.{attr} (changed in place by {m.name}) is bound per instance", where, bound_init is not None,
                   f"{ci.node.name}.{attr} is bound to `{unparse(class_mut[1].value) if class_mut else ''}` in the class body of {class_mut[0].node.name if class_mut else ''} and no constructor "
                   f"rebinds it, while {m.qual} changes it in place through self: every instance shares ONE container, so entries loaded for one "
                   "annotation are served to another", key=key, fn=m.qual)

"""Rules shared by several properties (instantiated under each property's own id).

optname       R-THREAD by name: a value read from `args.<a>` that is bound to a name / keyword `<b>` which is itself a
              CLI option of the package must have a == b  (copy-paste plumbing: `keep_cterm = args.keep_nterm`)
ctxmgr        generator context managers restore their state in a `finally` (exception safety of swap/restore helpers)
memo_shared   no functools cache on a function that hands out a fresh mutable container (callers mutate the shared value)
"""
import ast
from sa.model import unparse, call_name, kwarg, walk_no_nested


def all_dests(repo):
    """every argparse dest of the package (add_argument flags)"""
    out = set()
    for f in repo.funcs_in('cli'):
        for c in [n for n in ast.walk(f.node) if isinstance(n, ast.Call) and call_name(n) == 'add_argument']:
            dest = kwarg(c, 'dest')
            if isinstance(dest, ast.Constant):
                out.add(dest.value)
                continue
            longs = [a.value for a in c.args if isinstance(a, ast.Constant) and isinstance(a.value, str) and a.value.startswith('--')]
            if longs:
                out.add(longs[0][2:].replace('-', '_'))
    return out


def _args_reads(e):
    return [n for n in ast.walk(e) if isinstance(n, ast.Attribute) and unparse(n.value) in ('args', 'self.args') and isinstance(n.ctx, ast.Load)]


def optname(chk, repo, rid, mod_prefixes, floor=1):
    chk.rule(rid, 'R-THREAD: an option value bound to a name that is itself an option name carries that very option '
             '(no cross-wired plumbing between CLI and library)', floor)
    from sa.options import cli_options
    mod_dests = {}
    for f in repo.functions.values():
        if not any(f.module.modname == m or f.module.modname.startswith(m + '.') for m in mod_prefixes):
            continue
        if f.module.modname not in mod_dests:
            # the options of THIS command: add_argument calls reachable from the module's sub-parser builder
            d_ = set()
            for g in repo.functions.values():
                if g.module is f.module and g.name.startswith(('add_subparser', 'add_args')):
                    d_ |= set(cli_options(repo, g))
            mod_dests[f.module.modname] = d_
        dests = mod_dests[f.module.modname]
        if not dests:
            continue
        for n in walk_no_nested(f.node):
            pairs = []
            if isinstance(n, (ast.Assign, ast.AnnAssign)) and getattr(n, 'value', None) is not None:
                tg = n.targets[0] if isinstance(n, ast.Assign) else n.target
                if isinstance(tg, ast.Name):
                    pairs.append((tg.id, n.value))
                elif isinstance(tg, ast.Attribute) and unparse(tg.value) == 'self':
                    pairs.append((tg.attr, n.value))
            elif isinstance(n, ast.Call):
                for k in n.keywords:
                    if k.arg:
                        pairs.append((k.arg, k.value))
            for name, val in pairs:
                if name not in dests:
                    continue
                reads = {r.attr for r in _args_reads(val)}
                if not reads or len(reads) != 1:
                    continue
                a = next(iter(reads))
                if a not in dests:
                    continue
                chk.call_sites += 1
                chk.ob(rid, f"{f.qual.split(':')[1]}: '{name}' <- args.{a}", repo.loc(f, n), a == name,
                       f"'{name}' is bound to args.{a}: the value of --{a.replace('_', '-')} is used where --{name.replace('_', '-')} was requested "
                       f"(the option --{name.replace('_', '-')} is parsed but never reaches the library)", key=f"{f.qual}::optname::{name}", fn=f.qual)


def _ctx_findings(fnode):
    """[yield statements whose clean-up is not protected] for one @contextmanager function"""
    bad = []
    ys = [n for n in walk_no_nested(fnode) if isinstance(n, ast.Expr) and isinstance(n.value, ast.Yield)]
    for y in ys:
        blk = owner = field = None
        for p in ast.walk(fnode):
            for fld in ('body', 'orelse', 'finalbody'):
                b = getattr(p, fld, None)
                if isinstance(b, list) and y in b:
                    blk, owner, field = b, p, fld
        after = blk[blk.index(y) + 1:] if blk else []
        in_try_with_finally = isinstance(owner, ast.Try) and field == 'body' and bool(owner.finalbody)
        ok = (not after) and (in_try_with_finally or not _has_following(fnode, owner))
        if not ok:
            bad.append(y)
    return bad


_CTX_BAD = """
@contextmanager
def swap(self, k, v):
    old = self.d[k]
    self.d[k] = v
    yield self
    self.d[k] = old
"""
_CTX_GOOD = """
@contextmanager
def swap(self, k, v):
    old = self.d[k]
    self.d[k] = v
    try:
        yield self
    finally:
        self.d[k] = old
"""


def ctxmgr(chk, repo, rid, mod_prefixes=None, floor=0):
    from sa.model import AnalysisError
    chk.rule(rid, 'generator context managers: whatever follows the `yield` runs in a `finally` (state is restored when the body raises)', floor)
    # built-in positive / negative example (the expected count on the repository is zero)
    if not _ctx_findings(ast.parse(_CTX_BAD).body[0]) or _ctx_findings(ast.parse(_CTX_GOOD).body[0]):
        raise AnalysisError(f"rule {rid}: built-in example of the context-manager rule no longer behaves as expected")
    for f in repo.funcs_in():
        if mod_prefixes and not any(f.module.modname == m or f.module.modname.startswith(m + '.') for m in mod_prefixes):
            continue
        if not any('contextmanager' in unparse(d) for d in f.node.decorator_list):
            continue
        bad = _ctx_findings(f.node)
        chk.ob(rid, f"{f.qual}: clean-up after `yield` is in a finally", f.where, not bad,
               f"{f.qual}: statements after the `yield` of a context manager are skipped when the managed block raises "
               "(the swapped state is never restored: a failure caught by --skip-failed leaks into the following units)",
               key=f"{f.qual}::ctxmgr-finally", fn=f.qual)


def _has_following(fn, owner) -> bool:
    """statements that run after the block owning the yield (outside any finally)"""
    if owner is fn:
        return False
    for p in ast.walk(fn):
        for fld in ('body', 'orelse'):
            b = getattr(p, fld, None)
            if isinstance(b, list) and owner in b:
                if b[b.index(owner) + 1:]:
                    return True
                return _has_following(fn, p)
    return False


def memo_shared(chk, repo, rid, mod_prefixes, floor=0):
    chk.rule(rid, 'no functools cache on a function whose result is a mutable container (callers would share and mutate one object)', floor)
    for f in repo.functions.values():
        if not any(f.module.modname == m or f.module.modname.startswith(m + '.') for m in mod_prefixes):
            continue
        cached = any(('lru_cache' in unparse(d) or unparse(d) in ('cache', 'functools.cache')) for d in f.node.decorator_list)
        chk.functions.add(f.qual)
        if not cached:
            continue
        mutable = False
        for r in [n for n in walk_no_nested(f.node) if isinstance(n, ast.Return) and n.value is not None]:
            v = r.value
            if isinstance(v, ast.Name):
                for a in walk_no_nested(f.node):
                    if isinstance(a, (ast.Assign, ast.AnnAssign)) and getattr(a, 'value', None) is not None:
                        tg = a.targets[0] if isinstance(a, ast.Assign) else a.target
                        if unparse(tg) == v.id and isinstance(a.value, (ast.Dict, ast.List, ast.Set, ast.DictComp, ast.ListComp, ast.SetComp)):
                            mutable = True
                        if unparse(tg) == v.id and isinstance(a.value, ast.Call) and call_name(a.value) in ('dict', 'list', 'set', 'defaultdict', 'OrderedDict'):
                            mutable = True
            if isinstance(v, (ast.Dict, ast.List, ast.Set, ast.DictComp, ast.ListComp, ast.SetComp)):
                mutable = True
        chk.ob(rid, f"{f.qual}: cached function returns an immutable value", f.where, not mutable,
               f"{f.qual} is memoised but returns a mutable container: every caller receives the SAME object, so an in-place update of one parsed "
               "record's attributes (e.g. shift_breakpoint_to_closest_exon) silently changes every later parse of that text", key=f"{f.qual}::memo-shared", fn=f.qual)


def sorted_before_use(chk, repo, rid, fqual, ctor, kw, why):
    """the list passed as `kw` to `ctor(...)` in function `fqual` is sorted (L.sort() dominating the call, or sorted(L)) after
    the last statement that appends to it"""
    from sa.cfg import CFG
    from sa import sem
    f = repo.func(fqual)
    chk.uses(f)
    nf = sem.nf(repo, f)
    cfg = CFG(nf)
    sites = [n for n in cfg.nodes if n.kind == 'stmt' and sem.calls_in_stmt(n.ast, ctor)]
    ok = bool(sites)
    detail = f"{ctor}(...) call not found"
    for sn in sites:
        c = sem.calls_in_stmt(sn.ast, ctor)[0]
        v = kwarg(c, kw)
        if v is None:
            ok, detail = False, f"{ctor}(..., {kw}=...) not passed"
            continue
        if isinstance(v, ast.Call) and call_name(v) == 'sorted':
            continue
        if not isinstance(v, ast.Name):
            ok, detail = False, f"{kw}={unparse(v)} is not a list bound to a local (cannot decide)"
            continue
        L = v.id
        sorts = [n.id for n in cfg.nodes if n.kind == 'stmt' and isinstance(n.ast, ast.Expr) and unparse(n.ast.value) == f"{L}.sort()"]
        sorts += [n.id for n in cfg.nodes if n.kind == 'stmt' and isinstance(n.ast, ast.Assign) and unparse(n.ast.targets[0]) == L
                  and isinstance(n.ast.value, ast.Call) and call_name(n.ast.value) == 'sorted']
        prods = [n.id for n in cfg.nodes if n.kind == 'stmt' and any(unparse(c2.func.value) == L for c2 in sem.calls_in_stmt(n.ast, 'append'))]
        good = [s_ for s_ in sorts if cfg.dominates(s_, sn.id) and not any(s_ in cfg.reachable(p_) and p_ in cfg.reachable(s_) and False for p_ in prods)]
        # the sort must come after every producer: no producer is reachable from the sort
        good = [s_ for s_ in good if not any(p_ in cfg.reachable(s_) for p_ in prods)]
        if not good:
            ok, detail = False, f"'{L}' is passed as {kw} without a dominating {L}.sort() after its last append"
    chk.ob(rid, f"{f.name}: {kw} of {ctor}(...) is sorted after it was built", f.where, ok, f"{detail}: {why}", key=f"{fqual}::sorted::{kw}", fn=f.qual)

"""C04 - output hygiene: non-canonical, within limits, unique, table consistent.

a R-GUARD    emission into the peptide table / pools is dominated by the validity filter
b R-SIBLING  table filter and pool filter test the same reject set, rejects precede insertion
c R-GUARD    X / * exclusion dominates every store into the per-graph peptide dictionary
d R-KEYS     peptide-table writer/reader column agreement; subseq slice == written start/end
e R-ONCE     pool add merges-or-adds; record identity is the sequence; FASTA regenerated from every index block
"""
import ast
import re
from sa import sem
from sa.model import unparse, norm_stmt, call_name, kwarg, walk_no_nested, AnalysisError
from sa.cfg import CFG, literal
from sa import guards as G

TBL = 'svgraph.VariantPeptideTable:VariantPeptideTable.'
POOL = 'aa.VariantPeptidePool:VariantPeptidePool.'
VPD = 'svgraph.VariantPeptideDict:'


def reject_set(fn, seq_expr):
    """Normalised reject conditions: top-level `if <cond>: return False` statements."""
    out = set()
    for st in walk_no_nested(fn):
        if isinstance(st, ast.If) and len(st.body) == 1 and isinstance(st.body[0], ast.Return) and \
                isinstance(st.body[0].value, ast.Constant) and st.body[0].value.value is False:
            for d in G.disjuncts(st.test):
                a, pol = literal(d)
                out.add((a.replace(seq_expr, 'SEQ'), pol))
    return out


def run(chk, repo):
    chk.clauses = [
        'C04.a every peptide written by the three calling commands passed the validity filter (table.is_valid / pool.add_peptide without skip_checking)',
        'C04.b the two filters reject the same set {mass < min_mw, len < min_length, len > max_length, in canonical pool}; rejects precede insertion',
        'C04.c sequences with X are skipped and sequences with * raise before any store into the per-graph peptide dictionary',
        'C04.d peptide table: 12 columns in header order; reader takes sequence from column 0 and header from column 1; subsequence slice uses the written start/end',
        'C04.f (shared with C12.a) the canonical pool used for filtering is looked up by ALL cleavage settings that shape the digest',
        'C04.e pool add either merges into the equal record or adds; record hash/eq depend on the sequence only; FASTA is regenerated from every indexed block',
    ]
    chk.not_decided = ['that the per-graph denylist equals the reference digest of the transcript for every input']

    # ------------------------------------------------------------------ a
    chk.rule('C04.a', 'R-GUARD: emission dominated by the validity filter', 5)
    drv = repo.func('cli.call_variant_peptide:call_variant_peptide')
    chk.uses(drv)
    ndrv = sem.nf(repo, drv)
    chains_d = sem.block_chains(ndrv)
    add_sites = sem.facts_where(ndrv, lambda st: sem.own_stmt(st) and any(unparse(c.func.value) == 'peptide_table' for c in sem.calls_in_stmt(st, 'add_peptide')))
    adds = [c for st, _fx in add_sites for c in sem.calls_in_stmt(st, 'add_peptide') if unparse(c.func.value) == 'peptide_table']
    chk.call_sites += len(adds)
    for st, fx in add_sites:
        c = [c for c in sem.calls_in_stmt(st, 'add_peptide') if unparse(c.func.value) == 'peptide_table'][0]
        seq_t = unparse(sem.expand_names(ndrv, st, c.args[0], chains=chains_d)) if c.args else None
        ok = False
        lits = dict(fx.d) if fx is not None else {}
        if fx is not None:
            for nm_, dx in fx.defs.items():
                if lits.get(nm_) is True:
                    for a_, p_ in (sem.conj_literals(dx, True) or set()):
                        lits.setdefault(a_, p_)
        for a_, p_ in lits.items():
            if p_ is True and a_.startswith('peptide_table.is_valid('):
                try:
                    ce = ast.parse(a_, mode='eval').body
                except SyntaxError:
                    continue
                kv = {k.arg: unparse(sem.expand_names(ndrv, st, k.value, chains=chains_d)) for k in ce.keywords}
                if kv.get('seq') == seq_t and kv.get('canonical_peptides') in ('ref.canonical_peptides', 'caller.reference_data.canonical_peptides') \
                        and kv.get('cleavage_params') == 'caller.cleavage_params':
                    ok = True
        chk.ob('C04.a', 'callVariant: peptide_table.add_peptide dominated by is_valid(seq=<same peptide>, canonical pool, cleavage params)',
               drv.where, ok or fx is None, 'a peptide can enter the peptide table without passing is_valid for the same sequence against the canonical pool and the limits',
               key=drv.qual + '::table-add-guard', fn=drv.qual)
    chk.ob('C04.a', 'callVariant: single table insertion site', drv.where, len(adds) == 1, f"{len(adds)} insertion sites", key=drv.qual + '::table-add-count', fn=drv.qual)
    wf = [c for c in G.find_calls(drv.node, 'write_fasta')]
    ok = len(wf) == 1 and unparse(wf[0].func.value) == 'peptide_table'
    chk.ob('C04.a', 'callVariant: FASTA is regenerated from the filtered table', drv.where, ok,
           'the callVariant FASTA is not produced by peptide_table.write_fasta', key=drv.qual + '::fasta-from-table', fn=drv.qual)
    skip_callers = []
    for f in repo.funcs_in():
        for c in G.find_calls(f.node, 'add_peptide', nested=False):
            sk = kwarg(c, 'skip_checking')
            if sk is not None and not (isinstance(sk, ast.Constant) and sk.value is False):
                skip_callers.append(f.qual)
    allowed = {'aa.VariantPeptidePool:VariantPeptidePool.add_peptide', 'cli.merge_fasta:merge_fasta', 'aa.PeptidePoolSplitter:PeptidePoolSplitter.load_database',
               'aa.PeptidePoolSplitter:PeptidePoolSplitter.add_peptide_to_database',
               'aa.PeptidePoolSummarizer:PeptidePoolSummarizer.load_database'}
    chk.ob('C04.a', 'skip_checking=True only in the bookkeeping commands (merge/split)', 'moPepGen/aa/VariantPeptidePool.py:1',
           set(skip_callers) <= allowed, f"skip_checking used in {sorted(set(skip_callers) - allowed)}", key='aa.VariantPeptidePool::skip_checking-callers')
    for q in ('cli.call_novel_orf:call_novel_orf_peptide', 'cli.call_alt_translation:call_alt_translation'):
        f = repo.func(q)
        chk.uses(f)
        cs = [c for c in G.find_calls(f.node, 'add_peptide')]
        ok = len(cs) == 1
        if ok:
            c = cs[0]
            a = [unparse(x) for x in c.args] + [f"{k.arg}={unparse(k.value)}" for k in c.keywords]
            ok = any(x in ('canonical_peptides', 'canonical_peptides=canonical_peptides') for x in a) and \
                any(x in ('cleavage_params', 'cleavage_params=cleavage_params') for x in a) and not any(x.startswith('skip_checking') for x in a)
            wr = [w for w in G.find_calls(f.node, 'write')]
            ok = ok and any(unparse(w.func.value) == unparse(c.func.value) for w in wr)
        chk.ob('C04.a', f"{f.name}: peptides enter the written pool only through add_peptide(canonical pool, limits)", f.where, ok,
               'peptides reach the output pool without the canonical/limit filter', key=q + '::pool-add', fn=f.qual)

    # ------------------------------------------------------------------ b
    # semantic form: path conditions (must-facts) on the normal form of the two filters, see sa/sem.py
    chk.rule('C04.b', 'R-SIBLING: both filters reject the same set; rejects precede insertion', 3)
    iv = repo.func(TBL + 'is_valid')
    ap = repo.func(POOL + 'add_peptide')
    chk.uses(iv, ap)
    niv, nap = sem.nf(repo, iv), sem.nf(repo, ap)
    want = {("SeqUtils.molecular_weight(SEQ, 'protein') < cleavage_params.min_mw", False), ('len(SEQ) < cleavage_params.min_length', False),
            ('cleavage_params.max_length < len(SEQ)', False), ('str(SEQ) in canonical_peptides', False)}

    def seqnorm(lits, seq_expr):
        pat = re.compile(r'(?<![\w.])' + re.escape(seq_expr) + r'(?![\w])')
        return {(pat.sub('SEQ', a), p) for a, p in lits}
    r1 = seqnorm(sem.accept_literals(niv) or set(), 'seq')
    chk.ob('C04.b', 'table filter accepts only if mass>=min, min<=len<=max and not canonical (limits of its own cleavage parameters)', iv.where, want <= r1,
           f"is_valid can return True without {sorted(want - r1)}", key=iv.qual + '::reject-set', fn=iv.qual)

    def is_insert(st):
        t = unparse(st)
        if isinstance(st, ast.Expr) and isinstance(st.value, ast.Call) and t.startswith('self.peptides.add('):
            return True
        tg = st.targets[0] if isinstance(st, ast.Assign) and len(st.targets) == 1 else (st.target if isinstance(st, ast.AugAssign) else None)
        return isinstance(tg, ast.Attribute) and tg.attr == 'description' and isinstance(tg.value, ast.Name) and tg.value.id != 'self'
    sites = sem.facts_where(nap, is_insert, {'skip_checking': False})
    ok = len(sites) >= 2
    miss = set()
    for st, fx in sites:
        got = seqnorm(sem.sure_literals(fx), 'peptide.seq')
        if fx is not None and not want <= got:
            ok = False
            miss |= (want - got)
    chk.ob('C04.b', 'pool filter: with checking on, every insertion / label merge is reached only after the same four tests', ap.where, ok,
           f"a peptide can be inserted into the pool (skip_checking False) without {sorted(miss)} - the commands disagree on what is canonical / within limits "
           f"({len(sites)} insertion sites)", key=ap.qual + '::reject-set', fn=ap.qual)
    chk.ob('C04.b', 'pool: both an add site and a merge site exist', ap.where, len(sites) >= 2, f"{len(sites)} insertion sites found",
           key=ap.qual + '::rejects-before-insert', fn=ap.qual)

    # ------------------------------------------------------------------ c
    chk.rule('C04.c', "R-GUARD: 'X' skip and '*' raise dominate stores into the peptide dictionary", 4)
    am = repo.func(VPD + 'VariantPeptideDict.add_miscleaved_sequences')
    chk.uses(am)
    mcfg = CFG(am.node)
    stores = [n for n in mcfg.nodes if n.kind == 'stmt' and ('self.peptides.setdefault(' in norm_stmt(n.ast) or norm_stmt(n.ast).startswith('self.seqs.add('))]
    for s in stores:
        fx = G.facts_at(mcfg, s.id)
        ok = fx.get("'X' in seq") is False and fx.get("'*' in seq") is False
        chk.ob('C04.c', f"add_miscleaved_sequences: '{norm_stmt(s.ast)[:50]}' after X-skip and *-raise", repo.loc(am, s.ast), ok,
               f"store reachable with facts {fx}: a sequence containing X or * can enter the peptide dictionary", key=am.qual + f"::store-guard::{norm_stmt(s.ast)[:30]}", fn=am.qual)
    star = [n for n in walk_no_nested(am.node) if isinstance(n, ast.If) and unparse(n.test) == "'*' in seq"]
    chk.ob('C04.c', "'*' in a called sequence raises", am.where, len(star) == 1 and isinstance(star[0].body[-1], ast.Raise),
           "'*' is no longer rejected with an error", key=am.qual + '::star-raise', fn=am.qual)
    for q in (VPD + 'VariantPeptideDict.is_valid_seq', VPD + 'MiscleavedNodes.is_valid_seq'):
        f = repo.func(q)
        chk.uses(f)
        rets = [n for n in walk_no_nested(f.node) if isinstance(n, ast.Return) and isinstance(n.value, ast.BoolOp)]
        lits = {literal(c) for r in rets for c in G.conjuncts(r.value)}
        need = {("'X' in seq", False), ('seq in denylist', False)}
        size = any(a.startswith('self.seq_has_valid_size(seq)') and p for a, p in lits)
        mw = any("SeqUtils.molecular_weight(seq, 'protein')" in a and 'min_mw' in a for a, p in lits)
        chk.ob('C04.c', f"{f.qual.split(':')[1]}: valid = size ok and not in denylist and no X and mass >= min", f.where,
               need <= lits and size and mw, f"conjuncts {sorted(lits)}", key=q + '::conjuncts', fn=f.qual)
    gp = repo.func(VPD + 'VariantPeptideDict.get_peptide_sequences')
    t = unparse(gp.node)
    chk.ob('C04.c', "get_peptide_sequences raises on '*'", gp.where, "if '*' in seq:\n            raise ValueError" in t, "'*' check removed", key=gp.qual + '::star', fn=gp.qual)

    # ------------------------------------------------------------------ d
    chk.rule('C04.d', 'R-KEYS: peptide table writer/reader agreement', 6)
    hdr = ast.literal_eval(repo.const('svgraph.VariantPeptideTable', 'VARIANT_PEPTIDE_TABLE_HEADERS'))
    addp = repo.func(TBL + 'add_peptide')
    tol = repo.func(VPD + 'PeptideSegment.to_line')
    chk.uses(addp, tol)
    line = None
    for n in ast.walk(addp.node):
        if isinstance(n, ast.Assign) and unparse(n.targets[0]) == 'line' and isinstance(n.value, ast.JoinedStr):
            line = ''.join(v.value if isinstance(v, ast.Constant) else '{' + unparse(v.value) + '}' for v in n.value.values)
    cols = line.rstrip('\n').split('\t') if line else []
    ok = cols == ['{str(seq)}', '{peptide_anno.label}', '{subseq}', '{seg.to_line()}']
    chk.ob('C04.d', 'row = sequence, header, subsequence, segment columns', addp.where, ok, f"row template {cols}", key=addp.qual + '::row', fn=addp.qual)
    # to_line columns on every outcome (E9 string template of the returned line)
    from sa.peval import PEval, Tmpl, show as pshow
    try:
        touts = [o for o in PEval(split_unknown=True).run(tol.node, {}) if o.kind == 'return']
    except (ValueError, OverflowError):
        touts = []
    if not touts or not all(isinstance(o.value, Tmpl) for o in touts):
        chk.undecided('C04.d', 'segment line', tol.where, 'PeptideSegment.to_line does not evaluate to tab-separated string templates')
        touts = []
    counts, orders = set(), set()
    ok_cols = bool(touts)
    for o in touts:
        cs = o.value.split('\t')
        counts.add(len(cs))
        txt = [(pshow(c.single()) if c.single() is not None else c.text[2:-1]) for c in cs]
        orders.add(tuple(txt))
        if len(cs) != 9:
            continue
        has_ref = o.assumed.get('self.ref')
        want_ref = (lambda t, a: t.startswith('str(') and f'self.ref.{a}' in t and f'self.ref.{a}_offset' in t) if has_ref else (lambda t, a: t == '.')
        var = txt[8]
        var_ok = var in ("self.variant_id if self.variant_id else '.'", "self.variant_id or '.'") or \
            (var == 'self.variant_id' and o.assumed.get('self.variant_id') is True) or (var == '.' and o.assumed.get('self.variant_id') is False)
        ok_cols = ok_cols and txt[:4] == ['str(self.query.start)', 'str(self.query.end)', "self.feature_type or '.'", "self.feature_id or '.'"] \
            and has_ref is not None and want_ref(txt[4], 'start') and want_ref(txt[5], 'end') \
            and txt[6:8] == ['str(self.query.start_offset)', 'str(self.query.end_offset)'] and var_ok
    ok = counts == {len(hdr) - 3}
    chk.ob('C04.d', f"segment line has {len(hdr) - 3} columns on every path (header has {len(hdr)})", tol.where, ok,
           f"segment column counts {counts}", key=tol.qual + '::column-count', fn=tol.qual)
    ok = ok_cols and hdr[3:7] == ['start', 'end', 'feature_type', 'feature_id'] and hdr[7:9] == ['ref_start', 'ref_end'] \
        and hdr[9:] == ['start_offset', 'end_offset', 'variant']
    chk.ob('C04.d', 'segment columns follow the header order (start,end,feature_type,feature_id,ref_start,ref_end,start_offset,end_offset,variant)', tol.where, ok,
           f"segment column orders {orders}", key=tol.qual + '::column-order', fn=tol.qual)
    sub = [n for n in ast.walk(addp.node) if isinstance(n, ast.Assign) and unparse(n.targets[0]) == 'subseq']
    ok = len(sub) == 1 and unparse(sub[0].value) == 'str(seq[seg.query.start:seg.query.end])'
    chk.ob('C04.d', 'subsequence = seq[start:end] of the same segment whose start/end are written', addp.where, ok,
           f"subseq = {unparse(sub[0].value) if sub else None}", key=addp.qual + '::subseq', fn=addp.qual)
    lp = repo.func(TBL + 'load_peptide')
    chk.uses(lp)
    # column use (AST, in load_peptide and the new helpers it calls): the sequence is compared with column 0 and a mismatch raises, the
    # header added to the label set is column 1, and the blocks read are those of self.index[seq]
    fns_ = sem.with_new_helpers(repo, lp)
    cmp0 = any(isinstance(n, ast.If) and isinstance(n.test, ast.Compare) and len(n.test.ops) == 1 and isinstance(n.test.ops[0], ast.NotEq)
               and {unparse(n.test.left), unparse(n.test.comparators[0])} == {'seq', 'fields[0]'} and any(isinstance(x, ast.Raise) for x in n.body)
               for g_ in fns_ for n in ast.walk(g_.node))
    add1 = any(isinstance(n, ast.Call) and call_name(n) == 'add' and len(n.args) == 1 and unparse(n.args[0]) == 'fields[1]' for g_ in fns_ for n in ast.walk(g_.node))
    blocks = any(isinstance(n, (ast.For, ast.comprehension)) and unparse(n.iter) == 'self.index[seq]' for g_ in fns_ for n in ast.walk(g_.node))
    ok = cmp0 and add1 and blocks
    chk.ob('C04.d', 'reader: sequence from column 0 (checked), header from column 1, over every index block', lp.where, ok,
           'load_peptide column usage altered', key=lp.qual + '::columns', fn=lp.qual)
    # index block bookkeeping in add_peptide
    body = [norm_stmt(s) for s in addp.node.body]
    ok = 'start = self.handle.tell()' in body and 'end = self.handle.tell()' in body and 'cur = (start, end)' in body
    ifs = [s for s in addp.node.body if isinstance(s, ast.If) and unparse(s.test) == 'seq in self.index']
    # accepted index updates: append(cur) / = [cur] / coalescing that keeps the previous block's start
    idx_writes = [w for w in G.writes_in(addp.node.body) if 'self.index' in unparse(w[2])]
    def ok_write(w):
        t = norm_stmt(w[2]) if isinstance(w[2], ast.stmt) else unparse(w[2])
        if t in ('self.index[seq].append(cur)', 'self.index[seq] = [cur]'):
            return True
        if isinstance(w[2], ast.Assign) and unparse(w[2].targets[0]) in ('self.index[seq][-1]', 'indices[-1]') and isinstance(w[2].value, ast.Tuple):
            a, b = w[2].value.elts
            return '[-1][0]' in unparse(a) and unparse(b) == 'end'
        return False
    ok = ok and len(ifs) == 1 and len(idx_writes) >= 2 and all(ok_write(w) for w in idx_writes) and \
        any('append(cur)' in unparse(w[2]) for w in idx_writes) and any(norm_stmt(w[2]) == 'self.index[seq] = [cur]' for w in idx_writes if isinstance(w[2], ast.stmt))
    chk.ob('C04.d', 'every written block [tell before, tell after) is appended to the index of its sequence', addp.where, ok,
           'index bookkeeping of add_peptide altered: rows can exist in the table that write_fasta never reads (table and FASTA disagree)',
           key=addp.qual + '::index-blocks', fn=addp.qual)

    # ------------------------------------------------------------------ e
    chk.rule('C04.e', 'R-ONCE: merge-or-add; identity = sequence; FASTA from every index key', 4)
    wfa = repo.func(TBL + 'write_fasta')
    chk.uses(wfa)
    # E9: what write_fasta hands to write_record in one iteration: self.load_peptide(<a key of self.index>), whatever the loop is spelt like
    from sa.peval import PEval as _PE4, show as _sh4
    try:
        wo = _PE4(split_unknown=True, record=('write_record',)).run(wfa.node, {})
        recs = sorted({_sh4(c['args'][0]) for o in wo for c in o.calls if c['name'] == 'write_record' and c['args']})
    except (ValueError, OverflowError):
        recs = None
    if recs is None:
        chk.undecided('C04.e', 'write_fasta emits one record per index key', wfa.where, 'write_fasta cannot be evaluated', key=wfa.qual + '::per-key', fn=wfa.qual)
    else:
        ok = recs == ['self.load_peptide(<item of self.index>)'] and not any(isinstance(n, (ast.Break, ast.Continue)) for n in ast.walk(wfa.node))
        chk.ob('C04.e', 'write_fasta emits one record per index key', wfa.where, ok, f"write_fasta writes {recs} (expected self.load_peptide(<every key of self.index>))",
               key=wfa.qual + '::per-key', fn=wfa.qual)
    hs = repo.func('aa.AminoAcidSeqRecord:AminoAcidSeqRecord.__hash__')
    eq = repo.func('aa.AminoAcidSeqRecord:AminoAcidSeqRecord.__eq__')
    chk.uses(hs, eq)
    ok = unparse(hs.node.body[-1]) == 'return hash(str(self.seq))' and 'result = self.seq == other.seq' in unparse(eq.node)
    chk.ob('C04.e', 'record hash and equality depend on the sequence only', hs.where, ok, 'AminoAcidSeqRecord hash/eq altered', key='aa.AminoAcidSeqRecord::identity')
    # merge-or-add on the normal form: the add site is reached only when no equal record exists, the label merge only when one exists
    allsites = sem.facts_where(nap, is_insert)
    adds = [(st, fx) for st, fx in allsites if isinstance(st, ast.Expr)]
    merges = [(st, fx) for st, fx in allsites if not isinstance(st, ast.Expr)]

    def same_known(fx, truth):
        if fx is None:
            return True
        return fx.known('same_peptide') is truth or fx.known('get_equivalent(self.peptides, peptide)') is truth
    ok = len(adds) == 1 and len(merges) >= 1 and all(same_known(fx, False) for _s, fx in adds) and all(same_known(fx, True) for _s, fx in merges) and \
        any('get_equivalent(self.peptides, peptide)' in unparse(n) for n in ast.walk(nap))
    chk.ob('C04.e', 'pool add: merge label into the equal record XOR add the record', ap.where, ok,
           'merge-or-add structure of VariantPeptidePool.add_peptide altered (add reachable although an equal record exists, or merge without one)',
           key=ap.qual + '::merge-or-add', fn=ap.qual)
    rej = sem.facts_where(nap, lambda st: isinstance(st, ast.Return) and isinstance(st.value, ast.Constant) and st.value.value is False, {'skip_checking': False})
    acc = [st for st in ast.walk(nap) if isinstance(st, ast.Return) and not (isinstance(st.value, ast.Constant) and st.value.value is False)]
    chk.ob('C04.e', 'pool add reports acceptance (True) after add/merge and rejection (False) only from the filter', ap.where,
           len(rej) >= 1 and len(acc) >= 1, f"{len(rej)} rejecting and {len(acc)} accepting returns", key=ap.qual + '::returns', fn=ap.qual)

    # ------------------------------------------------------------------ f
    chk.rule('C04.f', 'canonical pool lookup key covers every digest parameter (shared rule with C12.a)', 3)
    from rules.C12 import lookup_key_rules
    lookup_key_rules(chk, repo, 'C04.f')

    # ------------------------------------------------------------------ g
    from rules.C10 import rule_thread, rule_cleave
    rule_thread(chk, repo, rid='C04.g', quals=('cli.common:load_references', 'cli.generate_index:generate_index', 'cli.update_index:update_index'))
    rule_cleave(chk, repo, rid='C04.h')
    from rules.C10 import rule_pool_shape
    chk.clauses.append('C04.i (shared with C10.c) every protein of the proteome is digested with its own cds_start_nf / parameters: nothing is skipped or altered before the digest (no memo on the sequence alone)')
    rule_pool_shape(chk, repo, rid='C04.i')

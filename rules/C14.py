"""C14 - parseVEP / parseREDItools preserve the genomic event.

a R-AFFINE-SLICE on every path of VEPRecord.convert_to_variant_record the REF slice equals [start,end) of the emitted location
b R-AFFINE-EQV   the plain-substitution path maps [genomic start, genomic end) to the definitional gene interval on both strands;
                 the strand-corrected allele (not the raw one) is used after normalisation
c must-precede   both boundary raises dominate every record construction
d R-HANDLER / thresholds: REDItools intron handler re-raises otherwise; each threshold used once as a reject `<`;
                 location computed per transcript from the genomic coordinate
"""
import ast
import re
from sa.model import unparse, norm_stmt, call_name, kwarg, walk_no_nested, AnalysisError
from sa.cfg import CFG, literal
from sa import guards as G
from sa.affine import Interp, Aff, Obj, model_g2gene, equal_mod

VEP = 'parser.VEPParser:VEPRecord.convert_to_variant_record'
RED = 'parser.REDItoolsParser:REDItoolsRecord.convert_to_variant_records'
SUBS = 'parser.REDItoolsParser:REDItoolsRecord.get_valid_subs'


def canon(t):
    return {'gene_model.location.start': 'S', 'gene_model.location.end': 'E'}.get(t, t)


def run(chk, repo):
    chk.clauses = [
        'C14.a on each path of the VEP conversion the REF slice bounds equal the emitted FeatureLocation(start,end) (REF is the gene sequence at its position by construction); '
        'insertions have end = start + 1; deletions take ALT from the base at start (or the last base when anchored at the transcript start)',
        'C14.b the un-anchored path maps the genomic interval to the definitional gene interval on both strands; after strand correction only the corrected allele is used',
        'C14.c the transcript-boundary raises dominate every record construction',
        'C14.d REDItools: errors other than index-in-intron propagate; each threshold is applied once as `value < threshold -> reject`; '
        'the location is the gene coordinate of the site, computed inside the per-transcript loop',
    ]
    chk.not_decided = ['equivalence with applying the genomic event and re-extracting the gene for every VEP representation convention']
    f = repo.func(VEP)
    chk.uses(f)
    models = {'coordinate_genomic_to_gene': model_g2gene()}

    # ------------------------------------------------------------------ a / b
    chk.rule('C14.a', 'R-AFFINE-SLICE: REF slice == emitted location on every path', 10)
    chk.rule('C14.b', 'R-AFFINE-EQV + allele provenance', 4)
    npaths = 0
    plain = {}
    for s in (1, -1):
        it = Interp(s, call_models=models, canon=canon, record=('FeatureLocation',), max_paths=4096)
        paths = it.run_function(f.node)
        for p in paths:
            if p.end != 'return':
                continue
            locs = [l for l in p.locs if l['ctor'] == 'FeatureLocation']
            if len(locs) != 1:
                continue
            npaths += 1
            st, en = locs[0]['kwargs'].get('start'), locs[0]['kwargs'].get('end')
            ref = p.env.get('ref')
            alt = p.env.get('alt')
            conds = [c for c, t in p.conds if t]
            label = f"strand {s:+d} path[{'; '.join(c for c in conds if 'alt_' in c or 'allele' in c or 'ref ==' in c)[:90]}]"
            key = f"{VEP}::ref-slice::{s:+d}::{'|'.join(c for c, t in p.conds if ('alt_' in c or 'allele' in c or 'ref ==' in c) and t)[:100]}"
            ok = isinstance(ref, Obj) and '__lo__' in ref.fields and isinstance(st, Aff) and isinstance(en, Aff) and \
                equal_mod(ref.fields['__lo__'], st, p.afacts) and equal_mod(ref.fields['__hi__'], en, p.afacts)
            got = (repr(ref.fields.get('__lo__')), repr(ref.fields.get('__hi__'))) if isinstance(ref, Obj) else repr(ref)
            chk.ob('C14.a', f"{label}: REF slice {got} == location [{st!r}, {en!r})", f.where, ok,
                   f"on {label} REF is read from {got} but the record is placed at [{st!r}, {en!r}) (given {[repr(a) for a in p.afacts]}): REF no longer "
                   "equals the gene sequence at the record's position", key=key, fn=f.qual)
            is_del = any(c == "self.allele == '-'" for c in conds)
            # location form decides the event kind: a two-base location (start-end with nothing between) with an allele is an
            # insertion between the two bases, whatever the allele length -> anchored on ONE reference base
            if not is_del and any(c == 'alt_end - alt_start == 2' for c in conds):
                w_ok = isinstance(ref, Obj) and '__lo__' in ref.fields and equal_mod(ref.fields['__hi__'] - ref.fields['__lo__'], Aff(1), p.afacts)
                chk.ob('C14.a', f"{label}: two-base location = insertion, REF is the single anchor base", f.where, w_ok,
                       f"on {label} the location has the insertion form (two adjacent bases) but REF spans {got}: the inserted bases replace reference bases instead of being inserted",
                       key=key + '::ins-anchor', fn=f.qual)
            if is_del:
                okd = isinstance(alt, Obj) and '__lo__' in alt.fields and \
                    (equal_mod(alt.fields['__lo__'], st, p.afacts) or equal_mod(alt.fields['__hi__'], en, p.afacts)) and \
                    equal_mod(alt.fields['__hi__'] - alt.fields['__lo__'], Aff(1), p.afacts)
                chk.ob('C14.a', f"{label}: deletion ALT is the single anchor base (at start, or last base when anchored at the transcript start)", f.where, okd,
                       f"deletion ALT read from {alt!r}", key=key + '::del-alt', fn=f.qual)
            # plain substitution path: no anchoring
            sg_, eg_ = p.env.get('alt_start_genomic'), p.env.get('alt_end_genomic')
            independent = isinstance(sg_, Aff) and isinstance(eg_, Aff) and not (eg_ - sg_).is_const()
            if not is_del and not any(c in ('alt_end - alt_start == 1', 'alt_end - alt_start == 2') for c in conds) and independent:
                # the multi-base range form: genomic start and end are independent symbols
                plain[s] = (st, en, p.env.get('alt_start_genomic'), p.env.get('alt_end_genomic'))
    chk.paths += npaths
    S, E = Aff.sym('S'), Aff.sym('E')
    for s in (1, -1):
        if s not in plain:
            chk.undecided('C14.b', f"strand {s:+d}: plain substitution path", f.where, 'the multi-base range path of convert_to_variant_record was not recognised', key=f"{VEP}::plain::{s:+d}", fn=f.qual)
            continue
        st, en, gs, ge = plain[s]
        want = (gs - S, ge - S) if s == 1 else (E - ge, E - gs)
        ok = isinstance(gs, Aff) and isinstance(ge, Aff) and st == want[0] and en == want[1]
        chk.ob('C14.b', f"strand {s:+d}: [gs, ge) -> [{want[0]!r}, {want[1]!r})", f.where, ok,
               f"strand {s:+d}: location [{st!r}, {en!r}) is not the definitional gene interval of the genomic interval [{gs!r}, {ge!r})",
               key=f"{VEP}::equivariance::{s:+d}", fn=f.qual)
    # allele provenance
    rc = [n for n in walk_no_nested(f.node) if isinstance(n, ast.If) and unparse(n.test) == 'strand == -1' and
          [norm_stmt(x) for x in n.body] == ['allele = str(Seq(allele).reverse_complement())']]
    chk.ob('C14.b', 'allele is reverse-complemented exactly on the - strand', f.where, len(rc) == 1,
           'strand correction of the allele altered', key=f"{VEP}::revcomp", fn=f.qual)
    raw_reads = [n for n in ast.walk(f.node) if isinstance(n, ast.Attribute) and unparse(n) == 'self.allele' and isinstance(n.ctx, ast.Load)]
    allowed = 0
    bad = []
    for n in raw_reads:
        st_ = repo.enclosing_stmt(n)
        p_ = repo.parent(n)
        if isinstance(st_, ast.Assign) and norm_stmt(st_) == 'allele = self.allele':
            allowed += 1
        elif isinstance(p_, ast.Compare) and unparse(p_) == "self.allele == '-'":
            allowed += 1
        elif isinstance(st_, ast.Raise) or any(isinstance(a, ast.JoinedStr) for a in repo.ancestors(n)):
            allowed += 1
        else:
            bad.append(f"{repo.loc(f, n)}: {norm_stmt(st_)[:60]}")
    chk.ob('C14.b', 'the raw (chromosome-orientation) allele is only tested / bound, never written into the record', f.where, not bad,
           f"raw self.allele used at {bad}: on the - strand ALT is not strand-corrected", key=f"{VEP}::raw-allele", fn=f.qual)

    # ------------------------------------------------------------------ c
    chk.rule('C14.c', 'must-precede: boundary raises dominate record construction', 2)
    cfg = CFG(f.node)
    ctor = [n.id for n in cfg.nodes if n.kind == 'stmt' and any(call_name(c) == 'VariantRecord' for c in G.find_calls(n.ast))]
    for test, exc in (('alt_start < tx_start_genetic or (alt_start == tx_start_genetic and (not tx_model.is_cds_start_nf()))', 'TranscriptionStartSiteMutationError'),
                      ('alt_end > tx_end_genetic', 'TranscriptionStopSiteMutationError')):
        ts = [n for n in cfg.nodes if n.kind == 'test' and literal(n.ast) == literal(ast.parse(test, mode='eval').body) or
              (n.kind == 'test' and unparse(n.ast).replace('(', '').replace(')', '') == test.replace('(', '').replace(')', ''))]
        ok = len(ts) == 1 and bool(ctor) and all(cfg.edge_dominates(ts[0].id, 'F', c) for c in ctor)
        if ok:
            ifn = next(n for n in walk_no_nested(f.node) if isinstance(n, ast.If) and n.test is ts[0].ast)
            ok = isinstance(ifn.body[-1], ast.Raise) and exc in unparse(ifn.body[-1])
        chk.ob('C14.c', f"'{test[:50]}...' raises {exc} before any record is built", f.where, ok,
               f"the boundary test '{test}' no longer dominates record construction with a raise of {exc}", key=f"{VEP}::boundary::{exc}", fn=f.qual)

    # ------------------------------------------------------------------ d
    chk.rule('C14.d', 'REDItools handler / thresholds / per-transcript location', 8)
    r = repo.func(RED)
    g = repo.func(SUBS)
    chk.uses(r, g)
    rcfg = CFG(r.node)
    hs = [h for t in walk_no_nested(r.node) if isinstance(t, ast.Try) for h in t.handlers]
    ok = len(hs) == 1
    badp = None
    if ok:
        hid = rcfg.node_for(hs[0])
        inside = set()
        for st in hs[0].body:
            for n in ast.walk(st):
                inside.update(rcfg.nodes_for(n))
        for p in rcfg.paths(hid, stop=lambda s, l, d: d not in inside, max_paths=200):
            intr = p.facts.known('e.args[0] == ERROR_INDEX_IN_INTRON')
            last = rcfg.nodes[p.steps[-1][0]].ast
            if intr is True:
                if not isinstance(last, ast.Continue):
                    badp = badp or p
            elif not isinstance(last, ast.Raise):
                badp = badp or p
    chk.ob('C14.d', 'handler: index-in-intron -> skip the transcript; anything else re-raised', repo.loc(r, hs[0]) if hs else r.where, ok and badp is None,
           'a ValueError other than ERROR_INDEX_IN_INTRON is swallowed and a record is emitted for a transcript in which the site is not exonic',
           key=RED + '::handler', path=badp.describe(r.module.relpath) if badp else None, fn=r.qual)
    # thresholds: on the normal form (comprehensions unrolled, locals propagated) every substitution that is kept is known
    # to have passed each of the four tests, written with the exact comparison of the documented rule
    from sa import sem
    thr = {'min_coverage_rna': 'total_count', 'min_coverage_dna': 'self.g_coverage_q', 'min_coverage_alt': 'read_count', 'min_frequency_alt': 'read_count / total_count'}
    ng = sem.nf(repo, g, idioms=True)
    loops = [l for l in ast.walk(ng) if isinstance(l, ast.For) and unparse(l.iter) == 'self.all_subs' and isinstance(l.target, ast.Name)]
    if len(loops) != 1:
        raise AnalysisError(f"anchor={SUBS}: loop over self.all_subs not found ({len(loops)})")
    X = loops[0].target.id
    cfg_g = CFG(ng)
    keep = [(st, fx) for st, fx in sem.facts_where(ng, lambda st: sem.own_stmt(st) and any(len(c.args) == 1 and unparse(c.args[0]) == X for c in sem.calls_in_stmt(st, 'append')))]
    RC = f'self.base_count[self.base_count_order[{X}[1]]]'
    TOT = 'sum(self.base_count)'
    want_false = {
        'min_coverage_rna': f'{TOT} < min_coverage_rna',
        'min_coverage_alt': f'{RC} < min_coverage_alt',
        'min_frequency_alt': f'{RC} / {TOT} < min_frequency_alt',
    }
    for tname, val in thr.items():
        if tname == 'min_coverage_dna':
            ok = bool(keep) and all(sem.known(fx, 'self.g_coverage_q == -1 or (self.g_coverage_q is not None and not self.g_coverage_q < min_coverage_dna)') is True for _st, fx in keep)
            want_t = 'g_coverage_q == -1 or (g_coverage_q is not None and g_coverage_q >= min_coverage_dna)'
        else:
            ok = bool(keep) and all(sem.known(fx, want_false[tname]) is False for _st, fx in keep)
            want_t = f'not ({want_false[tname]})'
        uses = sorted({unparse(c) for c in ast.walk(ng) if isinstance(c, ast.Compare) and any(isinstance(n, ast.Name) and n.id == tname for n in ast.walk(c))})
        chk.ob('C14.d', f"threshold {tname}: a substitution is kept only if `{want_t}`", g.where, ok,
               f"{tname} is used as {uses}: a kept substitution is not known to satisfy `{want_t}` (expected exactly the reject comparison `{val} < {tname}`)",
               key=SUBS + f'::threshold::{tname}', fn=g.qual)
    # thresholds threaded by name
    call = G.find_calls(r.node, 'get_valid_subs')
    ok = len(call) == 1 and all(kwarg(call[0], t) is not None and unparse(kwarg(call[0], t)) == t for t in thr)
    chk.ob('C14.d', 'thresholds are threaded by name into get_valid_subs', r.where, ok, 'threshold arguments swapped / dropped', key=RED + '::threshold-threading', fn=r.qual)
    cli = repo.func('cli.parse_reditools:parse_reditools')
    chk.uses(cli)
    call2 = G.find_calls(cli.node, 'convert_to_variant_records')
    ok = len(call2) == 1 and all(kwarg(call2[0], t) is not None and unparse(kwarg(call2[0], t)) == t for t in thr) and \
        all(any(isinstance(n, ast.AnnAssign) and unparse(n.target) == t and unparse(n.value) == f"args.{t}" for n in walk_no_nested(cli.node)) for t in thr)
    chk.ob('C14.d', 'CLI binds each threshold option to the parameter of the same name', cli.where, ok, 'CLI threshold binding altered', key=cli.qual + '::threshold-threading', fn=cli.qual)
    # location computed inside the per-transcript loop from the genomic coordinate and this transcript's gene
    nr = sem.nf(repo, r, idioms=True)
    chains = sem.block_chains(nr)
    ok = False
    loop = None
    for st_ in ast.walk(nr):
        for c in (sem.calls_in_stmt(st_, 'FeatureLocation') if isinstance(st_, ast.stmt) and sem.own_stmt(st_) else []):
            sn, sa_, se = (kwarg(c, k_) for k_ in ('seqname', 'start', 'end'))
            if sn is None or sa_ is None or se is None:
                continue
            sn_t = unparse(sem.expand_names(nr, st_, sn, chains=chains, allow_calls=('coordinate_genomic_to_gene',)))
            st_t = unparse(sem.expand_names(nr, st_, sa_, chains=chains, allow_calls=('coordinate_genomic_to_gene',)))
            en_t = unparse(sem.expand_names(nr, st_, se, chains=chains, allow_calls=('coordinate_genomic_to_gene',)))
            m_ = re.fullmatch(r'anno\.transcripts\[(\w+)\]\.transcript\.gene_id', sn_t)
            if not m_:
                continue
            TX = m_.group(1)
            loop = next((l for l in ast.walk(nr) if isinstance(l, ast.For) and isinstance(l.target, ast.Name) and l.target.id == TX
                         and any(x is st_ for b in l.body for x in ast.walk(b))), None)
            ok = loop is not None and st_t == f'anno.coordinate_genomic_to_gene(self.position - 1, {sn_t})' and en_t == f'{st_t} + 1'
    if ok:
        for s_ in ast.walk(loop):
            if isinstance(s_, ast.If) and any(x in unparse(s_.test) for x in ('location', 'position ')):
                ok = False
    chk.ob('C14.d', 'gene id, gene position and location are recomputed for every transcript', repo.loc(r, loop) if loop else r.where, ok,
           'the location is not recomputed per transcript from (genomic position, that transcript\'s gene): transcripts of another overlapping gene get the first gene\'s coordinates',
           key=RED + '::per-transcript-location', fn=r.qual)
    # ------------------------------------------------------------------ shared: option plumbing by name
    from rules.shared import optname
    chk.clauses.append('C14.e (shared R-THREAD) an option value bound to a name that is itself a CLI option carries that very option')
    optname(chk, repo, 'C14.e', ['cli.parse_vep', 'cli.parse_reditools'], floor=0)
    from rules.shared import kwname
    chk.clauses.append('C14.kw (shared R-THREAD) parameters handed on as keyword arguments keep their name: no `a=b` between two parameters of one function')
    kwname(chk, repo, 'C14.kw', ['parser.VEPParser', 'parser.REDItoolsParser', 'cli.parse_vep', 'cli.parse_reditools'], floor=0)
    from rules.shared import no_clamped_conversion
    chk.clauses.append('C14.f (R-TAINT) the genomic positions parseVEP / parseREDItools convert to gene coordinates are the reported ones, never clamped to the gene or transcript: events touching the boundary are rejected, not shortened')
    no_clamped_conversion(chk, repo, 'C14.f', ['parser.VEPParser:VEPRecord.convert_to_variant_record', 'parser.REDItoolsParser:REDItoolsRecord.convert_to_variant_records'])
    from rules.shared import no_symbol_keys
    chk.clauses.append('C14.h (R-KEYS) nothing in the VEP / REDItools parsers or their CLIs is cached or looked up under a gene symbol: REF / ALT of a record come from its own gene sequence')
    no_symbol_keys(chk, repo, 'C14.h', ['parser.VEPParser', 'parser.REDItoolsParser', 'cli.parse_vep', 'cli.parse_reditools'])
    from rules.shared import converted_per_line
    chk.clauses.append('C14.g (R-FRESH) every record parseVEP files for a line of the VEP output is VEPRecord.convert_to_variant_record() of that very line: the per-transcript boundary checks run for every transcript')
    converted_per_line(chk, repo, 'C14.g', 'cli.parse_vep:parse_vep')



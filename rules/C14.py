"""C14 - parseVEP / parseREDItools preserve the genomic event.

a R-AFFINE-SLICE on every path of VEPRecord.convert_to_variant_record the REF slice equals [start,end) of the emitted location
b R-AFFINE-EQV   the plain-substitution path maps [genomic start, genomic end) to the definitional gene interval on both strands;
                 the strand-corrected allele (not the raw one) is used after normalisation
c must-precede   both boundary raises dominate every record construction
d R-HANDLER / thresholds: REDItools intron handler re-raises otherwise; each threshold used once as a reject `<`;
                 location computed per transcript from the genomic coordinate
"""
import ast
from sa.model import unparse, norm_stmt, call_name, kwarg, walk_no_nested, AnalysisError
from sa.cfg import CFG, literal
from sa import guards as G
from sa.affine import Interp, Aff, Obj, model_g2gene, equal_mod

VEP = 'parser.VEPParser:VEPRecord.convert_to_variant_record'
RED = 'parser.REDItoolsParser:REDItoolsRecord.convert_to_variant_records'
SUBS = 'parser.REDItoolsParser:REDItoolsRecord.get_valid_subs'


def canon(t):
    return {'gene_model.location.start': 'S', 'gene_model.location.end': 'E'}.get(t, t)


def run(chk, repo):
    chk.clauses = [
        'C14.a on each path of the VEP conversion the REF slice bounds equal the emitted FeatureLocation(start,end) (REF is the gene sequence at its position by construction); '
        'insertions have end = start + 1; deletions take ALT from the base at start (or the last base when anchored at the transcript start)',
        'C14.b the un-anchored path maps the genomic interval to the definitional gene interval on both strands; after strand correction only the corrected allele is used',
        'C14.c the transcript-boundary raises dominate every record construction',
        'C14.d REDItools: errors other than index-in-intron propagate; each threshold is applied once as `value < threshold -> reject`; '
        'the location is the gene coordinate of the site, computed inside the per-transcript loop',
    ]
    chk.not_decided = ['equivalence with applying the genomic event and re-extracting the gene for every VEP representation convention']
    f = repo.func(VEP)
    chk.uses(f)
    models = {'coordinate_genomic_to_gene': model_g2gene()}

    # ------------------------------------------------------------------ a / b
    chk.rule('C14.a', 'R-AFFINE-SLICE: REF slice == emitted location on every path', 10)
    chk.rule('C14.b', 'R-AFFINE-EQV + allele provenance', 4)
    npaths = 0
    plain = {}
    for s in (1, -1):
        it = Interp(s, call_models=models, canon=canon, record=('FeatureLocation',), max_paths=4096)
        paths = it.run_function(f.node)
        for p in paths:
            if p.end != 'return':
                continue
            locs = [l for l in p.locs if l['ctor'] == 'FeatureLocation']
            if len(locs) != 1:
                continue
            npaths += 1
            st, en = locs[0]['kwargs'].get('start'), locs[0]['kwargs'].get('end')
            ref = p.env.get('ref')
            alt = p.env.get('alt')
            conds = [c for c, t in p.conds if t]
            label = f"strand {s:+d} path[{'; '.join(c for c in conds if 'alt_' in c or 'allele' in c or 'ref ==' in c)[:90]}]"
            key = f"{VEP}::ref-slice::{s:+d}::{'|'.join(c for c, t in p.conds if ('alt_' in c or 'allele' in c or 'ref ==' in c) and t)[:100]}"
            ok = isinstance(ref, Obj) and '__lo__' in ref.fields and isinstance(st, Aff) and isinstance(en, Aff) and \
                equal_mod(ref.fields['__lo__'], st, p.afacts) and equal_mod(ref.fields['__hi__'], en, p.afacts)
            got = (repr(ref.fields.get('__lo__')), repr(ref.fields.get('__hi__'))) if isinstance(ref, Obj) else repr(ref)
            chk.ob('C14.a', f"{label}: REF slice {got} == location [{st!r}, {en!r})", f.where, ok,
                   f"on {label} REF is read from {got} but the record is placed at [{st!r}, {en!r}) (given {[repr(a) for a in p.afacts]}): REF no longer "
                   "equals the gene sequence at the record's position", key=key, fn=f.qual)
            is_del = any(c == "self.allele == '-'" for c in conds)
            if is_del:
                okd = isinstance(alt, Obj) and '__lo__' in alt.fields and \
                    (equal_mod(alt.fields['__lo__'], st, p.afacts) or equal_mod(alt.fields['__hi__'], en, p.afacts)) and \
                    equal_mod(alt.fields['__hi__'] - alt.fields['__lo__'], Aff(1), p.afacts)
                chk.ob('C14.a', f"{label}: deletion ALT is the single anchor base (at start, or last base when anchored at the transcript start)", f.where, okd,
                       f"deletion ALT read from {alt!r}", key=key + '::del-alt', fn=f.qual)
            # plain substitution path: no anchoring
            if not is_del and not any(c in ('alt_end - alt_start == 1', 'alt_end - alt_start == 2') for c in conds) and \
                    any(c.startswith('alt_position.find') for c in conds):
                # the multi-base range form: genomic start and end are independent symbols
                plain[s] = (st, en, p.env.get('alt_start_genomic'), p.env.get('alt_end_genomic'))
    chk.paths += npaths
    S, E = Aff.sym('S'), Aff.sym('E')
    for s in (1, -1):
        if s not in plain:
            chk.ob('C14.b', f"strand {s:+d}: plain substitution path found", f.where, False, 'path not found', key=f"{VEP}::plain::{s:+d}", fn=f.qual)
            continue
        st, en, gs, ge = plain[s]
        want = (gs - S, ge - S) if s == 1 else (E - ge, E - gs)
        ok = isinstance(gs, Aff) and isinstance(ge, Aff) and st == want[0] and en == want[1]
        chk.ob('C14.b', f"strand {s:+d}: [gs, ge) -> [{want[0]!r}, {want[1]!r})", f.where, ok,
               f"strand {s:+d}: location [{st!r}, {en!r}) is not the definitional gene interval of the genomic interval [{gs!r}, {ge!r})",
               key=f"{VEP}::equivariance::{s:+d}", fn=f.qual)
    # allele provenance
    rc = [n for n in walk_no_nested(f.node) if isinstance(n, ast.If) and unparse(n.test) == 'strand == -1' and
          [norm_stmt(x) for x in n.body] == ['allele = str(Seq(allele).reverse_complement())']]
    chk.ob('C14.b', 'allele is reverse-complemented exactly on the - strand', f.where, len(rc) == 1,
           'strand correction of the allele altered', key=f"{VEP}::revcomp", fn=f.qual)
    raw_reads = [n for n in ast.walk(f.node) if isinstance(n, ast.Attribute) and unparse(n) == 'self.allele' and isinstance(n.ctx, ast.Load)]
    allowed = 0
    bad = []
    for n in raw_reads:
        st_ = repo.enclosing_stmt(n)
        p_ = repo.parent(n)
        if isinstance(st_, ast.Assign) and norm_stmt(st_) == 'allele = self.allele':
            allowed += 1
        elif isinstance(p_, ast.Compare) and unparse(p_) == "self.allele == '-'":
            allowed += 1
        elif isinstance(st_, ast.Raise) or any(isinstance(a, ast.JoinedStr) for a in repo.ancestors(n)):
            allowed += 1
        else:
            bad.append(f"{repo.loc(f, n)}: {norm_stmt(st_)[:60]}")
    chk.ob('C14.b', 'the raw (chromosome-orientation) allele is only tested / bound, never written into the record', f.where, not bad,
           f"raw self.allele used at {bad}: on the - strand ALT is not strand-corrected", key=f"{VEP}::raw-allele", fn=f.qual)

    # ------------------------------------------------------------------ c
    chk.rule('C14.c', 'must-precede: boundary raises dominate record construction', 2)
    cfg = CFG(f.node)
    ctor = [n.id for n in cfg.nodes if n.kind == 'stmt' and any(call_name(c) == 'VariantRecord' for c in G.find_calls(n.ast))]
    for test, exc in (('alt_start < tx_start_genetic or (alt_start == tx_start_genetic and (not tx_model.is_cds_start_nf()))', 'TranscriptionStartSiteMutationError'),
                      ('alt_end > tx_end_genetic', 'TranscriptionStopSiteMutationError')):
        ts = [n for n in cfg.nodes if n.kind == 'test' and literal(n.ast) == literal(ast.parse(test, mode='eval').body) or
              (n.kind == 'test' and unparse(n.ast).replace('(', '').replace(')', '') == test.replace('(', '').replace(')', ''))]
        ok = len(ts) == 1 and bool(ctor) and all(cfg.edge_dominates(ts[0].id, 'F', c) for c in ctor)
        if ok:
            ifn = next(n for n in walk_no_nested(f.node) if isinstance(n, ast.If) and n.test is ts[0].ast)
            ok = isinstance(ifn.body[-1], ast.Raise) and exc in unparse(ifn.body[-1])
        chk.ob('C14.c', f"'{test[:50]}...' raises {exc} before any record is built", f.where, ok,
               f"the boundary test '{test}' no longer dominates record construction with a raise of {exc}", key=f"{VEP}::boundary::{exc}", fn=f.qual)

    # ------------------------------------------------------------------ d
    chk.rule('C14.d', 'REDItools handler / thresholds / per-transcript location', 8)
    r = repo.func(RED)
    g = repo.func(SUBS)
    chk.uses(r, g)
    rcfg = CFG(r.node)
    hs = [h for t in walk_no_nested(r.node) if isinstance(t, ast.Try) for h in t.handlers]
    ok = len(hs) == 1
    badp = None
    if ok:
        hid = rcfg.node_for(hs[0])
        inside = set()
        for st in hs[0].body:
            for n in ast.walk(st):
                inside.update(rcfg.nodes_for(n))
        for p in rcfg.paths(hid, stop=lambda s, l, d: d not in inside, max_paths=200):
            intr = p.facts.known('e.args[0] == ERROR_INDEX_IN_INTRON')
            last = rcfg.nodes[p.steps[-1][0]].ast
            if intr is True:
                if not isinstance(last, ast.Continue):
                    badp = badp or p
            elif not isinstance(last, ast.Raise):
                badp = badp or p
    chk.ob('C14.d', 'handler: index-in-intron -> skip the transcript; anything else re-raised', repo.loc(r, hs[0]) if hs else r.where, ok and badp is None,
           'a ValueError other than ERROR_INDEX_IN_INTRON is swallowed and a record is emitted for a transcript in which the site is not exonic',
           key=RED + '::handler', path=badp.describe(r.module.relpath) if badp else None, fn=r.qual)
    # thresholds
    thr = {'min_coverage_rna': 'total_count', 'min_coverage_dna': 'self.g_coverage_q', 'min_coverage_alt': 'read_count', 'min_frequency_alt': 'read_count / total_count'}
    for tname, val in thr.items():
        uses = [c for c in ast.walk(g.node) if isinstance(c, ast.Compare) and any(isinstance(n, ast.Name) and n.id == tname for n in ast.walk(c))]
        ok = len(uses) == 1 and literal(uses[0]) == (f"{val} < {tname}", True)
        ctx_ok = False
        if ok:
            for a in repo.ancestors(uses[0]):
                if isinstance(a, ast.If):
                    ctx_ok = G.block_leaves(a.body) and not any(isinstance(x, ast.Call) and call_name(x) == 'append' for b in a.body for x in ast.walk(b))
                    break
        chk.ob('C14.d', f"threshold {tname}: used once as `{val} < {tname}` -> reject", g.where, ok and ctx_ok,
               f"{tname} is used as {[unparse(u) for u in uses]} (expected exactly one reject comparison `{val} < {tname}`)",
               key=SUBS + f'::threshold::{tname}', fn=g.qual)
    # thresholds threaded by name
    call = G.find_calls(r.node, 'get_valid_subs')
    ok = len(call) == 1 and all(kwarg(call[0], t) is not None and unparse(kwarg(call[0], t)) == t for t in thr)
    chk.ob('C14.d', 'thresholds are threaded by name into get_valid_subs', r.where, ok, 'threshold arguments swapped / dropped', key=RED + '::threshold-threading', fn=r.qual)
    cli = repo.func('cli.parse_reditools:parse_reditools')
    chk.uses(cli)
    call2 = G.find_calls(cli.node, 'convert_to_variant_records')
    ok = len(call2) == 1 and all(kwarg(call2[0], t) is not None and unparse(kwarg(call2[0], t)) == t for t in thr) and \
        all(any(isinstance(n, ast.AnnAssign) and unparse(n.target) == t and unparse(n.value) == f"args.{t}" for n in walk_no_nested(cli.node)) for t in thr)
    chk.ob('C14.d', 'CLI binds each threshold option to the parameter of the same name', cli.where, ok, 'CLI threshold binding altered', key=cli.qual + '::threshold-threading', fn=cli.qual)
    # location computed inside the per-transcript loop from the genomic coordinate and this transcript's gene
    loop = next((l for l in G.find_for(r.node) if unparse(l.iter) == '_ids'), None)
    ok = loop is not None
    if ok:
        txt = [norm_stmt(s) for s in loop.body]
        ok = 'gene_id = tx_model.transcript.gene_id' in txt and 'position = anno.coordinate_genomic_to_gene(self.position - 1, gene_id)' in txt and \
            any(t.startswith('location = FeatureLocation(seqname=gene_id, start=position, end=position + 1)') for t in txt)
        # not guarded by state carried across transcripts
        for s in loop.body:
            if isinstance(s, ast.If) and any(x in unparse(s.test) for x in ('location', 'position')):
                ok = False
    chk.ob('C14.d', 'gene id, gene position and location are recomputed for every transcript', repo.loc(r, loop) if loop else r.where, ok,
           'the location is not recomputed per transcript from (genomic position, that transcript\'s gene): transcripts of another overlapping gene get the first gene\'s coordinates',
           key=RED + '::per-transcript-location', fn=r.qual)

"""C05 - options and inputs act monotonically on the peptide set.

a R-POLARITY every occurrence of a limit (min_length, max_length, min_mw, miscleavage) has keep-monotone polarity
b R-EFFECT   alt-translation forms are added on top: additive-only stores, no in-place mutation of shared nodes, no-op when flag off
c R-POLARITY restrictive switches only add skips
d R-EFFECT   applying a variant only adds nodes/edges; the reference path is spliced with 'reference' edges, never removed
e            adding a GVF file only appends pointers (shared with C06.c)
"""
import ast
import re
from sa.model import unparse, norm_stmt, call_name, kwarg, walk_no_nested, AnalysisError
from sa.cfg import CFG
from sa import guards as G
from sa import polarity as P

OPTS = {'min_length': '-', 'max_length': '+', 'min_mw': '-', 'miscleavage': '+'}   # required keep polarity (relaxing direction)
SCOPE = [
    'svgraph.VariantPeptideTable:VariantPeptideTable.is_valid',
    'aa.VariantPeptidePool:VariantPeptidePool.add_peptide',
    'svgraph.VariantPeptideDict:MiscleavedNodeSeries.is_too_short',
    'svgraph.VariantPeptideDict:MiscleavedNodeSeries.is_too_long',
    'svgraph.VariantPeptideDict:MiscleavedNodes.is_valid_seq',
    'svgraph.VariantPeptideDict:MiscleavedNodes.seq_has_valid_size',
    'svgraph.VariantPeptideDict:MiscleavedNodes.join_miscleaved_peptides',
    'svgraph.VariantPeptideDict:MiscleavedNodes.translational_modification',
    'svgraph.VariantPeptideDict:VariantPeptideDict.find_miscleaved_nodes',
    'svgraph.VariantPeptideDict:VariantPeptideDict.is_valid_seq',
    'svgraph.VariantPeptideDict:VariantPeptideDict.seq_has_valid_size',
    'svgraph.VariantPeptideDict:VariantPeptideDict.translational_modification',
    'aa.AminoAcidSeqRecord:AminoAcidSeqRecord.enzymatic_cleave',
]
KEEP_PRED = {'is_valid', 'is_valid_seq', 'seq_has_valid_size'}
REJECT_PRED = {'is_too_short', 'is_too_long'}
EMIT = {'append', 'add', 'setdefault', 'extend', 'update'}
# reviewed exceptions: (function, normalised test) -> reason
EXCEPTIONS = {
    ('svgraph.VariantPeptideDict:VariantPeptideDict.find_miscleaved_nodes', 'n_cleavages + 1 == cleavage_params.miscleavage'):
        'pruning after the series was already recorded: stop extending at the limit (equality on a path that emitted above)',
}


def aliases_of(fn, opt):
    al = set()
    for n in ast.walk(fn):
        if isinstance(n, ast.Assign) and len(n.targets) == 1 and isinstance(n.targets[0], ast.Name) and \
                isinstance(n.value, ast.Attribute) and n.value.attr == opt:
            al.add(n.targets[0].id)
    a = fn.args
    for x in a.args + a.kwonlyargs:
        if x.arg == opt:
            al.add(opt)
    return al


def flags_of(fn):
    fl = {}
    for n in ast.walk(fn):
        if isinstance(n, ast.Assign) and len(n.targets) == 1 and isinstance(n.targets[0], ast.Name) and \
                isinstance(n.value, (ast.BoolOp, ast.Compare, ast.UnaryOp, ast.Call)):
            nm = n.targets[0].id
            fl[nm] = n.value if nm not in fl else ast.BoolOp(op=ast.Or(), values=[fl[nm], n.value])
    return fl


def has_emission(stmts):
    for s in stmts:
        for n in ast.walk(s):
            if isinstance(n, (ast.Yield, ast.YieldFrom)):
                return True
            if isinstance(n, ast.Call) and isinstance(n.func, ast.Attribute) and n.func.attr in EMIT:
                return True
    return False


def run(chk, repo):
    chk.clauses = [
        'C05.a every decision that reads min_length / max_length / min_mw / miscleavage keeps a peptide monotonically in the relaxing direction',
        'C05.b alt-translation (SECT / W2F) forms are stored additively, on copies of shared nodes, and the code is a no-op when the flag is off',
        'C05.c noncanonical-transcripts / backsplicing-only only add skips',
        'C05.d applying a variant creates nodes and edges only; splices use reference edges; nothing is removed from the host graph',
        'C05.e adding a GVF file only appends pointers',
        'C05.h the allowance for a leading Met (series length gate, size gate) equals the number of residues removed from the emitted Met-cleaved form',
        'C05.i every out-edge of a visited node is staged for traversal unless it leads to the stop sentinel itself',
    ]
    chk.not_decided = ['that every added peptide is attributable to the relaxation', 'interactions through the complexity limits',
                       'W2F / SECT flags also enlarge the per-transcript denylist: reported by C05.g as known findings']

    # summaries of predicate methods
    summaries = {}
    funcs = [repo.func(q) for q in SCOPE]
    chk.uses(*funcs)
    for f in funcs:
        if f.name in KEEP_PRED | REJECT_PRED:
            for opt in OPTS:
                al = aliases_of(f.node, opt)
                fl = flags_of(f.node)
                pol = '0'
                for r in [n for n in walk_no_nested(f.node) if isinstance(n, ast.Return) and n.value is not None]:
                    if isinstance(r.value, ast.Constant):
                        continue
                    pol = P.join(pol, P.truth_polarity(r.value, opt, al, {}, fl))
                # `if E: return False` style predicates
                for i in [n for n in walk_no_nested(f.node) if isinstance(n, ast.If) and len(n.body) == 1 and isinstance(n.body[0], ast.Return)
                          and isinstance(n.body[0].value, ast.Constant)]:
                    tp = P.truth_polarity(i.test, opt, al, {}, fl)
                    pol = P.join(pol, tp if i.body[0].value.value is True else P.NEG[tp])
                prev = summaries.setdefault(f.name, {}).get(opt, '0')
                summaries[f.name][opt] = P.join(prev, pol)
    # is_valid_seq calls seq_has_valid_size: recompute with summaries (fixpoint, 2 rounds)
    for _ in range(2):
        for f in funcs:
            if f.name in KEEP_PRED | REJECT_PRED:
                for opt in OPTS:
                    al = aliases_of(f.node, opt)
                    pol = '0'
                    for r in [n for n in walk_no_nested(f.node) if isinstance(n, ast.Return) and n.value is not None and not isinstance(n.value, ast.Constant)]:
                        pol = P.join(pol, P.truth_polarity(r.value, opt, al, {k: v for k, v in summaries.items() if k != f.name}, flags_of(f.node)))
                    if pol != '0':
                        summaries[f.name][opt] = P.join(summaries[f.name].get(opt, '0'), pol)
    chk.extra['predicate_summaries'] = summaries

    # ------------------------------------------------------------------ a
    chk.rule('C05.a', 'R-POLARITY: limit occurrences are keep-monotone in the relaxing direction', 22)
    for name in sorted(KEEP_PRED | REJECT_PRED):
        for opt, want in OPTS.items():
            pol = summaries.get(name, {}).get(opt, '0')
            if pol == '0':
                continue
            keep = pol if name in KEEP_PRED else P.NEG[pol]
            q = next(f for f in funcs if f.name == name)
            chk.ob('C05.a', f"predicate {name}: keep polarity in {opt} is '{keep}' (required '{want}')", q.where, keep == want,
                   f"{name}() {'accepts' if name in KEEP_PRED else 'rejects'} with polarity '{pol}' in {opt}: relaxing {opt} can remove a peptide",
                   key=f"predicate::{name}::{opt}", fn=q.qual)
    for f in funcs:
        if f.name in KEEP_PRED | REJECT_PRED and f.name != 'is_valid':
            continue
        fl = flags_of(f.node)
        for opt, want in OPTS.items():
            al = aliases_of(f.node, opt)
            for n in ast.walk(f.node):
                test = None
                if isinstance(n, (ast.If, ast.While)):
                    test = n.test
                if test is None:
                    continue
                pol = P.truth_polarity(test, opt, al, summaries, fl)
                if pol == '0':
                    continue
                tt = unparse(test)
                key = f"{f.qual}::{opt}::{tt[:80]}"
                if (f.qual, tt) in EXCEPTIONS:
                    chk.ob('C05.a', f"{f.name}: '{tt[:60]}' [{opt}] frozen exception: {EXCEPTIONS[(f.qual, tt)][:50]}", repo.loc(f, n), True, fn=f.qual)
                    continue
                if isinstance(n, ast.While):
                    ctx, keep = 'loop-continues (accept)', pol
                else:
                    body_ret = [s for s in n.body if isinstance(s, ast.Return) and isinstance(s.value, ast.Constant)]
                    if body_ret and body_ret[0].value.value is False:
                        ctx, keep = 'return False (reject)', P.NEG[pol]
                    elif body_ret and body_ret[0].value.value is True:
                        ctx, keep = 'return True (accept)', pol
                    elif G.block_leaves(n.body) and not has_emission(n.body):
                        ctx, keep = 'skip (reject)', P.NEG[pol]
                    elif has_emission(n.body) and not has_emission(n.orelse):
                        ctx, keep = 'emit (accept)', pol
                    else:
                        chk.ob('C05.a', f"{f.name}: '{tt[:60]}' [{opt}]", repo.loc(f, n), False,
                               f"UNCLASSIFIED-USE of {opt} in '{tt}': neither a pure skip nor a pure emission branch", key=key, fn=f.qual)
                        continue
                chk.ob('C05.a', f"{f.name}: '{tt[:60]}' [{opt}] {ctx}: keep '{keep}'", repo.loc(f, n), keep == want,
                       f"'{tt}' is a {ctx} with truth polarity '{pol}' in {opt}: relaxing {opt} ({'larger' if want == '+' else 'smaller'}) can remove a peptide "
                       "(or the comparison is not monotone)", key=key, fn=f.qual)

    # ------------------------------------------------------------------ b
    chk.rule('C05.b', 'R-EFFECT: alt-translation is additive, copy-before-mutate, no-op when off', 7)
    vt = repo.func('svgraph.VariantPeptideDict:VariantPeptideDict.translational_modification')
    from sa import sem
    nvt = sem.nf(repo, vt)
    # pool containers: self.peptides / self.seqs and every local bound to an entry of self.peptides
    entry_alias = {unparse(n.targets[0]) for n in ast.walk(nvt) if isinstance(n, ast.Assign) and len(n.targets) == 1 and isinstance(n.targets[0], ast.Name)
                   and unparse(n.value).startswith(('self.peptides.setdefault(', 'self.peptides['))}
    def pool_base(e):
        t = unparse(e)
        return t.startswith(('self.peptides', 'self.seqs')) or t in entry_alias
    bad = []
    stores = sem.facts_where(nvt, lambda st: isinstance(st, (ast.Assign, ast.AugAssign, ast.Delete)) and any(
        isinstance(t, ast.Subscript) and pool_base(t.value) for t in (st.targets if isinstance(st, (ast.Assign, ast.Delete)) else [st.target])))
    unguarded = []
    for st, fx in stores:
        if not isinstance(st, ast.Assign):
            bad.append(norm_stmt(st))
            continue
        t = st.targets[0]
        if sem.known(fx, f"{unparse(t.slice)} not in {unparse(t.value)}") is not True:
            unguarded.append(norm_stmt(st))
    for n in ast.walk(nvt):
        if isinstance(n, ast.Call) and isinstance(n.func, ast.Attribute) and pool_base(n.func.value) and \
                n.func.attr in ('pop', 'clear', 'remove', 'discard', 'update', 'popitem', '__delitem__', '__setitem__'):
            bad.append(unparse(n))
        if isinstance(n, (ast.Assign, ast.AugAssign)):
            for t in (n.targets if isinstance(n, ast.Assign) else [n.target]):
                if isinstance(t, ast.Attribute) and unparse(t) in ('self.peptides', 'self.seqs'):
                    bad.append(norm_stmt(n))
    chk.ob('C05.b', 'W2F pass writes the pool only through setdefault / guarded insert / add', vt.where, not bad,
           f"non-additive writes: {bad}", key=vt.qual + '::additive', fn=vt.qual)
    setdefaults = [n for n in ast.walk(nvt) if isinstance(n, ast.Call) and isinstance(n.func, ast.Attribute) and n.func.attr == 'setdefault' and pool_base(n.func.value)]
    chk.ob('C05.b', 'existing metadata is never overwritten (an entry is stored only when its key is known absent)', vt.where, (bool(stores) or bool(setdefaults)) and not unguarded,
           f"insert guard removed: {unguarded or 'no guarded store found'}", key=vt.qual + '::no-overwrite', fn=vt.qual)
    it = [l for l in ast.walk(nvt) if isinstance(l, ast.For) and re.search(r'self\.peptides(?![\w\[.])', unparse(l.iter))]
    ok = len(it) >= 1 and all(isinstance(l.iter, ast.Call) and call_name(l.iter) in ('copy', 'list', 'tuple', 'dict', 'deepcopy', 'sorted') for l in it)
    chk.ob('C05.b', 'W2F pass iterates a snapshot of the pool while adding', vt.where, ok,
           'the pool is modified while iterated / not a snapshot', key=vt.qual + '::snapshot', fn=vt.qual)
    fc = repo.func('svgraph.VariantPeptideDict:VariantPeptideDict.find_codon_reassignments')
    chk.uses(vt, fc)
    nfc = sem.nf(repo, fc)
    gen = sem.facts_where(nfc, lambda st: sem.own_stmt(st) and (bool(sem.calls_in_stmt(st, 'create_variant_w2f')) or bool(sem.calls_in_stmt(st, 'append'))))
    ok = bool(gen) and all(sem.known(fx, 'w2f') is True for _st, fx in gen)
    chk.ob('C05.b', 'no W2F reassignment is generated unless the flag is on', fc.where, ok, 'find_codon_reassignments is not a no-op when w2f is off', key=fc.qual + '::noop', fn=fc.qual)
    mt = repo.func('svgraph.VariantPeptideDict:MiscleavedNodes.translational_modification')
    jm = repo.func('svgraph.VariantPeptideDict:MiscleavedNodes.join_miscleaved_peptides')
    chk.uses(mt, jm)
    sel_w = [w for w in G.writes_in(jm.node.body) if w[0] == 'selenocysteines']
    ok = all(any(isinstance(a, ast.If) and unparse(a.test) == 'truncate_sec' for a in repo.ancestors(w[2])) or
             (isinstance(w[2], ast.Assign) and isinstance(w[2].value, ast.List) and not w[2].value.elts) for w in sel_w) and len(sel_w) >= 3
    chk.ob('C05.b', 'Sec sites are collected only when truncate_sec is on', jm.where, ok,
           f"selenocysteines written outside `if truncate_sec`: {[norm_stmt(w[2]) for w in sel_w]}", key=jm.qual + '::sec-flag', fn=jm.qual)
    # copy-before-mutate in translational_modification (normal form: helpers inlined)
    from sa import sem as _sem2
    nmt = _sem2.nf(repo, mt)
    ch2 = _sem2.block_chains(nmt)
    seen = {}
    for st in [x for x in ast.walk(nmt) if isinstance(x, ast.Expr) and isinstance(x.value, ast.Call) and call_name(x.value) in ('truncate_left', 'truncate_right')]:
        c = st.value
        tgt = unparse(c.func.value)
        prev = _sem2.nearest_store(nmt, st, tgt, ch2)
        okc = prev is not None and isinstance(prev, ast.Call) and call_name(prev) == 'copy'
        # nothing between the copy and the mutation re-binds the receiver to a shared object: nearest store is the copy
        n_ = seen.get((tgt, call_name(c)), 0)
        seen[(tgt, call_name(c))] = n_ + 1
        chk.ob('C05.b', f"'{norm_stmt(st)}' acts on a fresh copy", mt.where, okc,
               f"'{norm_stmt(st)}' mutates a node shared with the other series of the same start node (the receiver is not bound to a fresh .copy() before): "
               "enabling the alt-translation flag removes the un-truncated peptide of longer series", key=mt.qual + f"::copy-before::{call_name(c)}::{n_}", fn=mt.qual)

    # ------------------------------------------------------------------ c
    chk.rule('C05.c', 'R-POLARITY: restrictive switches only add skips', 4)
    for q, flag in (('cli.call_variant_peptide:VariantPeptideCaller.gather_data_for_call_variant', 'noncanonical_transcripts'),
                    ('cli.call_variant_peptide:call_variant_peptides_wrapper', 'noncanonical_transcripts'),
                    ('svgraph.VariantPeptideDict:VariantPeptideDict.find_miscleaved_nodes', 'backsplicing_only')):
        f = repo.func(q)
        chk.uses(f)
        for n in walk_no_nested(f.node):
            if not isinstance(n, ast.If):
                continue
            if not P.mentions(n.test, flag, {flag}):
                continue
            pol = flag_polarity(n.test, flag)
            only_skips = not has_emission(n.body) and not n.orelse and \
                any(isinstance(x, (ast.Continue, ast.Return, ast.Raise)) for s_ in n.body for x in ast.walk(s_)) and \
                not any(isinstance(x, (ast.Assign, ast.AugAssign)) and not isinstance(getattr(x, 'targets', [None])[0], ast.Name) for s_ in n.body for x in ast.walk(s_))
            if (G.block_leaves(n.body) and not has_emission(n.body) and not n.orelse) or only_skips:
                keep = P.NEG[pol]
                ctx = 'skip'
            else:
                keep = pol
                ctx = 'guarded work'
            chk.ob('C05.c', f"{f.name}: '{unparse(n.test)[:70]}' ({ctx}) keep polarity '{keep}' in {flag}", repo.loc(f, n), keep == '-',
                   f"switching {flag} on can ADD work/peptides here ('{unparse(n.test)}', {ctx}, polarity {pol})", key=f"{q}::{flag}::{unparse(n.test)[:60]}", fn=f.qual)

    # ------------------------------------------------------------------ d
    chk.rule('C05.d', 'R-EFFECT: apply_variant only adds; reference path spliced with reference edges', 3)
    av = repo.func('svgraph.ThreeFrameTVG:ThreeFrameTVG.apply_variant')
    chk.uses(av)
    selfcalls = sorted({call_name(c) for c in G.find_calls(av.node) if isinstance(c.func, ast.Attribute) and unparse(c.func.value) == 'self'})
    allowed = {'create_node', 'splice', 'add_edge'}
    chk.ob('C05.d', f"graph operations of apply_variant are {sorted(allowed)}", av.where, set(selfcalls) <= allowed,
           f"apply_variant calls {selfcalls}: operations outside create/splice/add_edge can drop the reference path", key=av.qual + '::ops', fn=av.qual)
    sp = [c for c in G.find_calls(av.node, 'splice')]
    ok = len(sp) >= 3 and all(len(c.args) == 3 and isinstance(c.args[2], ast.Constant) and c.args[2].value == 'reference' for c in sp)
    chk.ob('C05.d', 'every splice keeps a reference edge between the halves', av.where, ok, 'a splice does not use a reference edge', key=av.qual + '::splice-ref', fn=av.qual)
    rm = [call_name(c) for c in G.find_calls(av.node) if call_name(c).startswith('remove')]
    chk.ob('C05.d', 'apply_variant removes nothing', av.where, not rm, f"remove calls {rm}", key=av.qual + '::no-remove', fn=av.qual)

    # ------------------------------------------------------------------ e
    from rules.shared import pointers_append_only
    pointers_append_only(chk, repo, 'C05.e')

    # ------------------------------------------------------------------ f (shared with C06.a)
    from rules.C06 import rule_drain
    rule_drain(chk, repo, 'C05.f')

    # ------------------------------------------------------------------ g
    chk.rule('C05.g', 'R-POLARITY: add-only flags must not parameterise the per-transcript denylist (reject context)', 2)
    wr = repo.func('cli.call_variant_peptide:call_variant_peptides_wrapper')
    chk.uses(wr)
    dl = [n for n in walk_no_nested(wr.node) if isinstance(n, ast.Assign) and unparse(n.targets[0]) == 'denylist' and call_name(n.value) == 'call_canonical_peptides']
    if len(dl) != 1:
        raise AnalysisError('anchor=call_variant_peptides_wrapper: denylist = call_canonical_peptides(...) not found')
    for kw, flag in (('w2f', 'w2f_reassignment'), ('truncate_sec', 'truncate_sec')):
        a = kwarg(dl[0].value, kw)
        const_false = isinstance(a, ast.Constant) and a.value is False
        chk.ob('C05.g', f"denylist builder receives {kw}=False", repo.loc(wr, dl[0]), a is None or const_false,
               f"the denylist (peptides that are REJECTED) is built with {kw}={unparse(a) if a is not None else None}: switching the flag on adds the "
               f"{'W>F images' if kw == 'w2f' else 'Sec-truncated forms'} of reference peptides to the denylist, so a variant peptide equal to one of them "
               "disappears when the flag is enabled (non-monotone)", key=f"{wr.qual}::denylist-flag::{kw}", fn=wr.qual)

    met_allowance_rule(chk, repo, 'C05.h')

    # ------------------------------------------------------------------ i
    from sa.cfg import CFG as _CFG
    # floor: one instance per staging function (4 in the reference tree; some have more than one loop - merging two identical loops of
    # one function is a refactoring, a function losing all its loops is not)
    chk.rule('C05.i', 'R-COVER: every out-edge of a visited node is staged unless it leads to the stop sentinel (identity)', 4)
    nst = 0
    staged_fns = set()
    for fn in repo.funcs_in('svgraph.PeptideVariantGraph'):
        if not fn.name.startswith('call_and_stage'):
            continue
        loops = [l for l in walk_no_nested(fn.node) if isinstance(l, ast.For) and unparse(l.iter) == 'target_node.out_nodes']
        if not loops:
            continue
        staged_fns.add(fn.name)
        chk.uses(fn)
        c = _CFG(fn.node)
        for li, lp in enumerate(loops):
            x = unparse(lp.target)

            def is_stage(st, x=x):
                return isinstance(st, ast.Expr) and isinstance(st.value, ast.Call) and call_name(st.value) == 'stage' \
                    and len(st.value.args) >= 2 and unparse(st.value.args[1]) == x
            n, nsites, wit = G.iter_covers(c, lp, f"{x} is not self.stop", is_stage, max_paths=60000)
            chk.paths += n
            nst += 1
            chk.ob('C05.i', f"{fn.name}: each {x} in target_node.out_nodes is staged unless `{x} is self.stop` ({n} iteration paths)", repo.loc(fn, lp),
                   nsites > 0 and not wit,
                   f"an out-edge can be left unstaged although the node is not known to be the stop sentinel"
                   + (f" (path: {'; '.join(wit[0].describe(fn.module.relpath)[:5])})" if wit else '')
                   + ": PVGTraversal.stage visits a node only after ALL its in-edges were staged, so the node behind the edge (and everything only "
                   "reachable through it) is never visited - e.g. an in-graph '*' node of a stop-gain bubble starves the join node and all downstream peptides",
                   key=f"{fn.qual}::stage-all::{li}", fn=fn.qual)
    if len(staged_fns) < 4:
        raise AnalysisError(f"anchor=svgraph.PeptideVariantGraph: only {sorted(staged_fns)} of the four call_and_stage_* functions still loop over target_node.out_nodes")
    # ------------------------------------------------------------------ shared: option plumbing by name
    from rules.shared import optname
    chk.clauses.append('C05.j (shared R-THREAD) an option value bound to a name that is itself a CLI option carries that very option')
    optname(chk, repo, 'C05.j', ['cli.call_variant_peptide'], floor=0)
    from rules.shared import copy_own_containers
    # C05.o: records of a transcript are de-duplicated by set identity only (hash covers the donor / accepter attributes, __eq__ alone does not)
    chk.rule('C05.o', 'R-KEYS: VariantRecordPoolOnDisk.__getitem__ never drops a record because an `==`-equal one is already in a list', 1)
    chk.clauses.append('C05.o records gathered for a transcript are de-duplicated through set() only: no `record in <list of records>` test (VariantRecord.__eq__ ignores the donor range / accepter, so two different symbolic-alt records at one position would collapse): adding a GVF file can only add variants')
    gi_ = repo.func('seqvar.VariantRecordPoolOnDisk:VariantRecordPoolOnDisk.__getitem__')
    chk.uses(gi_)
    mem = [c for c in ast.walk(gi_.node) if isinstance(c, ast.Compare) and len(c.ops) == 1 and isinstance(c.ops[0], (ast.In, ast.NotIn))
           and re.search(r'(series\.\w+|records|variants)$', unparse(c.comparators[0])) and not re.search(r'pointers|anno|cached', unparse(c.comparators[0]))]
    chk.ob('C05.o', 'no membership test of a record in a list of records', gi_.where, not mem,
           f"{[unparse(c) for c in mem]}: list membership compares with VariantRecord.__eq__ (location, ref, alt, type only): a record that differs in its donor range / accepter "
           'from one already present is dropped, so adding a GVF file can remove or hide a variant', key=gi_.qual + '::list-membership', fn=gi_.qual)
    from rules.shared import w2f_tail_guard
    chk.clauses.append('C05.n (R-AFFINE) a W>F reassigned peptide keeps every residue behind the reassigned W (tail appended iff end < len(seq)): peptides added by the option are W>F forms of peptides of the run without it')
    w2f_tail_guard(chk, repo, 'C05.n')
    from rules.shared import lazy_cache_starts_empty
    chk.clauses.append('C05.m (R-FRESH) the cached length of a miscleaved node series is computed from its own nodes (cache starts empty): the min / max length limits act on the real length')
    lazy_cache_starts_empty(chk, repo, 'C05.m', ['svgraph.VariantPeptideDict'], floor=1)
    from rules.C10 import rule_cleave
    chk.clauses.append('C05.l (shared with C10.e / C04.h) enzymatic_cleave emits every window within the miscleavage limit and the M-cleaved form: the canonical pool grows monotonically with the limits')
    rule_cleave(chk, repo, rid='C05.l')
    chk.clauses.append('C05.k (R-EFFECT) copy.copy() of the variant pool / of a transcript\'s variant series owns its containers: the fusion and circRNA units, which narrow a COPY of the pool, never alter what later units (or an added GVF\'s records) see')
    copy_own_containers(chk, repo, 'C05.k', ['seqvar.VariantRecordPool:VariantRecordPool', 'seqvar.VariantRecordPoolOnDisk:TranscriptionalVariantSeries'], floor=4)


def flag_polarity(e, flag):
    """truth polarity of e when the boolean flag goes False->True."""
    if isinstance(e, ast.BoolOp):
        p = '0'
        for v in e.values:
            p = P.join(p, flag_polarity(v, flag))
        return p
    if isinstance(e, ast.UnaryOp) and isinstance(e.op, ast.Not):
        return P.NEG[flag_polarity(e.operand, flag)]
    if (isinstance(e, ast.Name) and e.id == flag) or (isinstance(e, ast.Attribute) and e.attr == flag):
        return '+'
    return '?' if P.mentions(e, flag, {flag}) else '0'


def met_allowance_rule(chk, repo, rid='C05.h'):
    # ------------------------------------------------------------------ h
    from sa.affine import simple_aff, Aff
    chk.rule(rid, 'R-AFFINE-EQV: the three sites of the leading-Met allowance agree on the length of the Met-cleaved form', 3)
    tmq = 'svgraph.VariantPeptideDict:MiscleavedNodes.translational_modification'
    tm = repo.func(tmq)
    jm = repo.func('svgraph.VariantPeptideDict:MiscleavedNodes.join_miscleaved_peptides')
    tl = repo.func('svgraph.VariantPeptideDict:MiscleavedNodeSeries.is_too_long')
    chk.uses(tm, jm, tl)
    # k = number of residues removed from the N-terminus of the emitted Met-cleaved form
    from sa import sem as _sem
    ntm = _sem.nf(repo, tm)
    _ch = _sem.block_chains(ntm)
    ks = set()
    for y, _fx in _sem.yield_tuples(ntm):
        E = _sem.expand_names(ntm, y, y.value.value.elts[0], chains=_ch)
        if isinstance(E, ast.Subscript) and isinstance(E.slice, ast.Slice) and E.slice.upper is None and isinstance(E.slice.lower, ast.Constant):
            ks.add(E.slice.lower.value)
    if len(ks) != 1:
        raise AnalysisError(f"anchor={tmq}: Met-cleaved form `<seq>[k:]` not found among the yields / inconsistent ({sorted(ks)})")
    k = ks.pop()
    tr = G.find_calls(ntm, 'truncate_left')
    chk.ob(rid, f"translational_modification: the node chain of the cleaved form is truncated by the same {k} residue(s)", tm.where,
           bool(tr) and all(len(c.args) == 1 and isinstance(c.args[0], ast.Constant) and c.args[0].value == k for c in tr),
           f"sequence is cut by {k} but the leading node by {[unparse(c.args[0]) for c in tr if c.args]}", key=tmq + '::cleaved-k', fn=tm.qual)
    gates = []
    for c in G.find_calls(jm.node, 'seq_has_valid_size'):
        par = repo.parent(c)
        if isinstance(par, ast.BoolOp) and isinstance(par.op, ast.And) and any("startswith('M')" in unparse(v) for v in par.values):
            gates.append(c)
    if len(gates) != 1:
        raise AnalysisError('anchor=join_miscleaved_peptides: Met allowance of the size gate not found')
    a = kwarg(gates[0], 'size')
    av = simple_aff(a) if a is not None else None
    chk.ob(rid, f"join_miscleaved_peptides: the size gate admits a Met-leading series when size - {k} is a valid size", repo.loc(jm, gates[0]),
           av is not None and av == Aff.sym('size') - k,
           f"the gate tests seq_has_valid_size(size={unparse(a) if a is not None else '?'}) = {av}, but the emitted Met-cleaved form has size - {k} residues: "
           f"a series of max_length + {k} starting with M is dropped (its legal cleaved form of exactly max_length is lost, while it is reported under "
           "max_length + 1: relaxing the limit adds a peptide inside the stricter limit)", key=jm.qual + '::met-allowance', fn=jm.qual)
    cmps = [n for n in ast.walk(tl.node) if isinstance(n, ast.Compare) and isinstance(repo.parent(n), ast.BoolOp) and isinstance(repo.parent(n).op, ast.And)
            and any("startswith('M')" in unparse(v) for v in repo.parent(n).values)]
    okl = False
    got = None
    if len(cmps) == 1 and len(cmps[0].ops) == 1 and isinstance(cmps[0].ops[0], ast.LtE):
        got = simple_aff(cmps[0].comparators[0])
        okl = unparse(cmps[0].left) == 'len(self)' and got == Aff.sym('param.max_length') + k
    chk.ob(rid, f"is_too_long: a series starting with M may be max_length + {k} long", tl.where, okl,
           f"allowance is {got}: the series whose Met-cleaved form has exactly max_length residues is abandoned (or longer ones kept)", key=tl.qual + '::met-allowance', fn=tl.qual)


"""C09 - callAltTranslation: thin call-contract clauses only.

a R-GUARD/R-THREAD non-coding transcripts skipped; flags threaded; ORF-mode constants; at least one flag required
b label construction: SECT variant appended before the label is built; W2F ids appended to every copied metadata
c the W>F combination builder accumulates substitutions (each step applies to the already modified sequence)
d Sec handling: a too-long start node is abandoned only when it carries no selenocysteine
"""
import ast
import re
from sa.model import unparse, norm_stmt, call_name, kwarg, walk_no_nested, AnalysisError
from sa.cfg import CFG
from sa import guards as G

ENTRY = 'cli.call_alt_translation:call_alt_translation'
MAIN = 'cli.call_alt_translation:call_alt_translation_main'
VPD = 'svgraph.VariantPeptideDict:'


def _startswith_bases(fx):
    out = set()
    if fx is None:
        return out
    lits = dict(fx.d)
    for name, dexpr in fx.defs.items():
        if lits.get(name) is True:
            from sa import sem
            for a, p in (sem.conj_literals(dexpr, True) or set()):
                lits.setdefault(a, p)
    for a, p in lits.items():
        if p is True and a.endswith(".startswith('M')"):
            out.add(a[:-len(".startswith('M')")])
    return out


def w2f_label(chk, repo, rid):
    """shared (C09.b, C03.h): the W2F ids appended to a label are those of the combination that was applied"""
    from sa import sem
    vt = repo.func(VPD + 'VariantPeptideDict.translational_modification')
    chk.uses(vt)
    nvt = sem.nf(repo, vt)
    combs = [l for l in ast.walk(nvt) if isinstance(l, ast.For) and 'combinations(' in unparse(l.iter) and isinstance(l.target, ast.Name)]
    if len(combs) != 1:
        raise AnalysisError(f"anchor={vt.qual}: loop over itertools.combinations(...) not found ({len(combs)})")
    COMB = combs[0].target.id
    # label: every id list that is joined into a label inside the combination loop ranges over the applied combination
    joins = [c for c in ast.walk(combs[0]) if isinstance(c, ast.Call) and call_name(c) == 'join' and c.args]
    srcs = []
    for c in joins:
        a = c.args[0]
        if isinstance(a, (ast.GeneratorExp, ast.ListComp)):
            srcs.append(unparse(a.generators[0].iter))
        else:
            srcs.append(unparse(a))
    lab = [n for n in ast.walk(combs[0]) if isinstance(n, (ast.Assign, ast.AugAssign)) and
           any(isinstance(t, ast.Attribute) and t.attr == 'label' for t in (n.targets if isinstance(n, ast.Assign) else [n.target]))]
    cp = [n for n in ast.walk(combs[0]) if isinstance(n, ast.Call) and call_name(n) == 'copy' and n.args and 'metadata' in unparse(n.args[0])]
    hv = [n for n in ast.walk(combs[0]) if isinstance(n, ast.Assign) and isinstance(n.targets[0], ast.Attribute) and n.targets[0].attr == 'has_variants'
          and isinstance(n.value, ast.Constant) and n.value.value is True]
    ok = bool(joins) and all(x == COMB for x in srcs) and bool(lab) and bool(cp) and bool(hv)
    chk.ob(rid, 'W2F ids of the applied combination are appended to a copy of each metadata', vt.where, ok,
           f"W2F label construction altered (ids joined from {srcs}, applied combination is '{COMB}'; label stores {len(lab)}, metadata copies {len(cp)})",
           key=vt.qual + '::w2f-label', fn=vt.qual)

    return nvt, combs, COMB


def run(chk, repo):
    chk.clauses = [
        'C09.a only coding transcripts reach the caller; --selenocysteine-termination / --w2f-reassignment are bound to truncate_sec / w2f; '
        'check_variants=True, check_external_variants=False; at least one flag is required',
        'C09.b the SECT event is in the variant list before the label is built; W2F ids are appended to each copied label',
        'C09.c multi-W substitution: every step of a combination is applied to the sequence produced by the previous step',
        'C09.d a start node longer than max_length is still explored when it carries a Sec site',
        'C09.f full and Met-cleaved forms (plain and Sec-truncated) are each emitted under their own validity flag, independently of the other',
    ]
    chk.not_decided = ['that the output is exactly the set of peptides arising only through SECT / W2F (definitional digest)']
    f = repo.func(ENTRY)
    m = repo.func(MAIN)
    chk.uses(f, m)
    cfg = CFG(f.node)

    chk.rule('C09.a', 'R-GUARD / R-THREAD call contract of callAltTranslation', 10)
    calls = G.find_calls(f.node, 'call_alt_translation_main')
    if len(calls) != 1:
        raise AnalysisError(f"anchor={ENTRY}: call_alt_translation_main call not found")
    site = cfg.node_for(repo.enclosing_stmt(calls[0]))
    loop = next(l for l in G.find_for(f.node) if unparse(l.iter) == 'anno.transcripts')
    ps = G.paths_to(cfg, site, start=cfg.node_for(loop))
    chk.paths += len(ps)
    bad = next((p for p in ps if p.facts.known('tx_model.is_protein_coding') is not True), None)
    chk.ob('C09.a', 'only protein-coding transcripts reach the caller', repo.loc(f, calls[0]), bad is None and bool(ps),
           'a non-coding transcript can reach call_alt_translation_main', key=ENTRY + '::coding-guard', fn=f.qual)
    want = {'w2f_reassignment': 'args.w2f_reassignment', 'sec_truncation': 'args.selenocysteine_termination', 'cleavage_params': 'cleavage_params',
            'tx_id': 'tx_id', 'tx_model': 'tx_model', 'genome': 'genome', 'anno': 'anno'}
    for k, v in want.items():
        a = kwarg(calls[0], k)
        chk.ob('C09.a', f"call_alt_translation_main({k}={v})", repo.loc(f, calls[0]), a is not None and unparse(a) == v,
               f"{k} = {unparse(a) if a is not None else 'missing'}, expected {v}", key=ENTRY + f'::arg::{k}', fn=f.qual)
    req = [n for n in walk_no_nested(f.node) if isinstance(n, ast.If) and unparse(n.test) == 'not (args.selenocysteine_termination or args.w2f_reassignment)']
    ok = len(req) == 1 and isinstance(req[0].body[-1], ast.Raise) and cfg.dominates(cfg.node_for(req[0]), cfg.node_for(loop))
    chk.ob('C09.a', 'at least one flag is required (raise dominates the transcript loop)', f.where, ok, 'flag requirement removed', key=ENTRY + '::flag-required', fn=f.qual)
    cvp = G.find_calls(m.node, 'call_variant_peptides')
    want2 = {'check_variants': 'True', 'truncate_sec': 'sec_truncation', 'w2f': 'w2f_reassignment', 'check_external_variants': 'False'}
    for k, v in want2.items():
        a = kwarg(cvp[0], k) if cvp else None
        chk.ob('C09.a', f"call_variant_peptides({k}={v})", repo.loc(m, cvp[0]) if cvp else m.where, a is not None and unparse(a) == v,
               f"{k} = {unparse(a) if a is not None else 'missing'}, expected {v}", key=MAIN + f'::cvp-arg::{k}', fn=m.qual)
    extra = [k.arg for k in cvp[0].keywords if k.arg not in want2] if cvp else []
    chk.ob('C09.a', 'no denylist / ORF-mode arguments alter the call', repo.loc(m, cvp[0]) if cvp else m.where, not extra,
           f"unexpected arguments {extra}", key=MAIN + '::cvp-extra', fn=m.qual)
    tvg = G.find_calls(m.node, 'ThreeFrameTVG')
    want3 = {'has_known_orf': 'True', 'cds_start_nf': 'tx_model.is_cds_start_nf()', 'mrna_end_nf': 'tx_model.is_mrna_end_nf()', 'cleavage_params': 'cleavage_params'}
    ok = bool(tvg) and all(kwarg(tvg[0], k) is not None and unparse(kwarg(tvg[0], k)) == v for k, v in want3.items())
    chk.ob('C09.a', 'graph built on the annotated ORF with the NF tags of the transcript', repo.loc(m, tvg[0]) if tvg else m.where, ok,
           'ThreeFrameTVG arguments altered', key=MAIN + '::tvg', fn=m.qual)
    gs = [c for c in G.find_calls(m.node, 'gather_sect_variants')]
    mcfg0 = CFG(m.node)
    it3 = G.find_calls(m.node, 'init_three_frames')
    okg = len(gs) == 1 and len(it3) >= 1
    if okg:
        gn = mcfg0.node_for(repo.enclosing_stmt(gs[0]))
        okg = all(mcfg0.dominates(gn, mcfg0.node_for(repo.enclosing_stmt(c))) for c in it3)
    chk.ob('C09.a', 'Sec sites are gathered from the annotation on every path before the frames are initialised (whatever flags are given: '
           'the annotated TGA must be read as U also when only W>F is requested)', m.where, okg,
           'gather_sect_variants missing / conditional / misplaced: without it translate() reads the annotated Sec codon as a stop', key=MAIN + '::sect', fn=m.qual)
    adds = G.find_calls(f.node, 'add_peptide')
    ok = len(adds) == 1 and unparse(kwarg(adds[0], 'canonical_peptides')) == 'canonical_peptides' and unparse(kwarg(adds[0], 'cleavage_params')) == 'cleavage_params' \
        and kwarg(adds[0], 'skip_checking') is None
    chk.ob('C09.a', 'peptides are filtered against the canonical pool and limits', f.where, ok, 'add_peptide arguments altered', key=ENTRY + '::add_peptide', fn=f.qual)

    chk.rule('C09.b', 'labels name the SECT / W2F events', 2)
    mt = repo.func(VPD + 'MiscleavedNodes.translational_modification')
    chk.uses(mt)
    mcfg = CFG(mt.node)
    from sa import sem
    nmt0 = sem.nf(repo, mt)
    ncfg = CFG(nmt0)
    secloops = [l for l in ast.walk(nmt0) if isinstance(l, ast.For) and unparse(l.iter) == 'selenocysteines' and isinstance(l.target, ast.Name)]
    ok = len(secloops) == 1
    n_lab = 0
    if ok:
        SEC = secloops[0].target.id
        for stn in [n for n in ncfg.nodes if n.kind == 'stmt' and any(x is n.ast for b in secloops[0].body for x in ast.walk(b))]:
            for c in sem.calls_in_stmt(stn.ast, 'create_variant_peptide_id'):
                n_lab += 1
                L = kwarg(c, 'variants')
                if not isinstance(L, ast.Name):
                    ok = False
                    continue
                apps = [m.id for m in ncfg.nodes if m.kind == 'stmt' and isinstance(m.ast, ast.Expr) and isinstance(m.ast.value, ast.Call)
                        and unparse(m.ast.value) == f"{L.id}.append({SEC}.variant)"]
                if not any(ncfg.dominates(a, stn.id) for a in apps):
                    ok = False
    chk.ob('C09.b', 'SECT variant appended before the Sec-truncated label is built', mt.where, ok and n_lab >= 1,
           'the label of a Sec-truncated peptide can be built without the SECT event', key=mt.qual + '::sect-before-label', fn=mt.qual)
    vt = repo.func(VPD + 'VariantPeptideDict.translational_modification')
    chk.uses(vt)
    from sa import sem
    nvt, combs, COMB = w2f_label(chk, repo, 'C09.b')

    chk.rule('C09.c', 'W>F combination builder accumulates', 1)
    inner = [l for l in ast.walk(combs[0]) if isinstance(l, ast.For) and unparse(l.iter) == COMB]
    ok = False
    detail = 'inner substitution loop over the combination not found'
    if len(inner) == 1:
        stored = {n.id for s_ in inner[0].body for n in ast.walk(s_) if isinstance(n, ast.Name) and isinstance(n.ctx, ast.Store)}
        # accumulators: names assigned in the loop whose value (transitively, inside the loop) is built from slices
        reads = set()
        for s_ in inner[0].body:
            for n in ast.walk(s_):
                if isinstance(n, ast.Subscript) and isinstance(n.slice, ast.Slice) and isinstance(n.value, ast.Name):
                    reads.add(n.value.id)
        # a slice base that is never re-assigned in the loop is the unmodified peptide
        fresh = {r for r in reads if r not in stored}
        # chain: every stored name that is sliced must be (re)defined from a value that depends on a sliced accumulator
        ok = bool(reads) and not fresh
        detail = f"slices are taken from {sorted(reads)}; never re-assigned in the loop: {sorted(fresh)}"
    chk.ob('C09.c', 'every slice of the substitution step reads the accumulator', vt.where, ok,
           f"{detail}: a step built from the unmodified peptide undoes the previous substitutions, so multi-W combinations are lost and labels name "
           "events the sequence does not contain", key=vt.qual + '::accumulate', fn=vt.qual)

    chk.rule('C09.d', 'too-long start node kept when it carries a Sec', 1)
    fm = repo.func(VPD + 'VariantPeptideDict.find_miscleaved_nodes')
    chk.uses(fm)
    fcfg = CFG(fm.node)
    rets = [n for n in fcfg.nodes if n.kind == 'stmt' and isinstance(n.ast, ast.Return) and unparse(n.ast.value) == 'nodes' and
            any(isinstance(a, ast.If) and 'is_too_long' in unparse(a.test) for a in repo.ancestors(n.ast))]
    ok = False
    if len(rets) == 1:
        fx = G.facts_at(fcfg, rets[0].id)
        ok = fx.get('node.selenocysteines') is False
    chk.ob('C09.d', 'early return for an over-long start node requires `not node.selenocysteines`', repo.loc(fm, rets[0].ast) if rets else fm.where, ok,
           'an over-long start node carrying a Sec is abandoned: the peptide ending at the Sec (valid after truncation) is never produced',
           key=fm.qual + '::sec-long-node', fn=fm.qual)

    chk.rule('C09.e', 'Sec loop uses only the truncated sequence (no stale read of the untruncated peptide)', 1)
    sec_loop = next((l for l in walk_no_nested(mt.node) if isinstance(l, ast.For) and unparse(l.iter) == 'selenocysteines'), None)
    stale = []
    if sec_loop is not None:
        for n in ast.walk(sec_loop):
            if isinstance(n, ast.Name) and n.id == 'seq' and isinstance(n.ctx, ast.Load):
                st = repo.enclosing_stmt(n)
                if isinstance(st, ast.Assign) and unparse(st.targets[0]) == 'seq_mod' and unparse(st.value).startswith('seq[:'):
                    continue
                stale.append(f"{repo.loc(mt, n)}: {norm_stmt(st)[:70]}")
    chk.ob('C09.e', 'inside `for sec in selenocysteines` the full sequence `seq` is read only to derive seq_mod', repo.loc(mt, sec_loop) if sec_loop else mt.where,
           sec_loop is not None and not stale,
           f"the Sec-termination loop reads the untruncated `seq` at {stale}: validity / emission of the truncated peptide is decided on the wrong sequence",
           key=mt.qual + '::stale-seq-in-sec-loop', fn=mt.qual)

    chk.rule('C09.l', 'R-DRAIN: every selenocysteine of the peptide gets its truncated form examined (the Sec loop is never abandoned)', 1)
    chk.clauses.append('C09.l the loop over the Sec positions of a peptide has no break / return: a truncation that is out of the size range does not hide the later ones (they are longer)')
    exits_ = [n for n in ast.walk(sec_loop) if isinstance(n, (ast.Break, ast.Return))] if sec_loop is not None else []
    inner = {id(x) for l2 in (ast.walk(sec_loop) if sec_loop is not None else []) if isinstance(l2, (ast.For, ast.While)) and l2 is not sec_loop for x in ast.walk(l2) if isinstance(x, ast.Break)}
    exits_ = [n for n in exits_ if id(n) not in inner]
    chk.ob('C09.l', 'no break / return leaves `for sec in selenocysteines`', repo.loc(mt, exits_[0]) if exits_ else (repo.loc(mt, sec_loop) if sec_loop else mt.where),
           sec_loop is not None and not exits_,
           f"the Sec-termination loop is left early at {[repo.loc(mt, n) for n in exits_]}: truncations at later Sec positions are longer, so valid Sec-terminated peptides are never examined",
           key=mt.qual + '::sec-loop-exhaustive', fn=mt.qual)

    chk.rule('C09.f', 'R-GUARD: the full form and the Met-cleaved form are emitted independently (each under its own validity flag only)', 4)
    from sa import sem
    nmt = sem.nf(repo, mt)
    chains = sem.block_chains(nmt)
    ysites = sem.facts_where(nmt, lambda st: isinstance(st, ast.Expr) and isinstance(st.value, ast.Yield) and isinstance(st.value.value, ast.Tuple))
    if len(ysites) < 4:
        raise AnalysisError(f"anchor={mt.qual}: expected at least 4 yields (full / Met-cleaved, plain / Sec-truncated), found {len(ysites)}")

    def valid_args(fx, st, truth=True):
        """expanded argument texts S for which `self.is_valid_seq(S, pool, denylist)` is known `truth` at the site"""
        out = set()
        if fx is None:
            return out
        lits = dict(fx.d)
        for name, dexpr in fx.defs.items():
            if lits.get(name) is True:
                for a, p in (sem.conj_literals(dexpr, True) or set()):
                    lits.setdefault(a, p)
        for a, p in lits.items():
            if p is truth and 'is_valid_seq(' in a:
                try:
                    e = ast.parse(a, mode='eval').body
                except SyntaxError:
                    continue
                for c in ast.walk(e):
                    if isinstance(c, ast.Call) and call_name(c) == 'is_valid_seq' and c.args:
                        out.add(unparse(sem.expand_names(nmt, st, c.args[0], chains=chains)))
        return out
    for i, (y, fx) in enumerate(ysites):
        E = sem.expand_names(nmt, y, y.value.value.elts[0], chains=chains)
        cleaved = isinstance(E, ast.Subscript) and isinstance(E.slice, ast.Slice) and E.slice.upper is None and unparse(E.slice.lower) == '1'
        full_txt = unparse(E.value) if cleaved else unparse(E)
        sec = '[:' in full_txt
        known_valid = valid_args(fx, y)
        if cleaved:
            mb = set()
            for b in _startswith_bases(fx):
                try:
                    mb.add(unparse(sem.expand_names(nmt, y, ast.parse(b, mode='eval').body, chains=chains)))
                except SyntaxError:
                    pass
            ok = unparse(E) in known_valid and full_txt not in known_valid and sem.known(fx, 'is_start_codon') is True and full_txt in mb
            own, other = 'the Met-cleaved form is valid, the peptide begins at the start codon with M', 'the full form'
        else:
            ok = full_txt in known_valid and (full_txt + '[1:]') not in known_valid and sem.known(fx, 'is_start_codon') is None
            own, other = 'the full form is valid', 'the Met-cleaved form / the start codon'
        chk.ob('C09.f', f"yield #{i} ({'Met-cleaved' if cleaved else 'full'} {'Sec-truncated ' if sec else ''}form `{unparse(E)[:50]}`) is reached exactly when {own}",
               mt.where, ok,
               f"at this yield the validity facts are {sorted(known_valid)} (is_start_codon: {sem.known(fx, 'is_start_codon')}): the "
               f"{'Met-cleaved' if cleaved else 'full'} form must be emitted whenever {own} and must not depend on {other} "
               "(a Met-leading peptide of max_length + 1 residues has a valid cleaved form although the full form is invalid)",
               key=f"{mt.qual}::yield-independent::{'sec' if sec else 'plain'}::{'cleaved' if cleaved else 'full'}", fn=mt.qual)
    # ------------------------------------------------------------------ shared: option plumbing by name
    from rules.shared import optname
    chk.clauses.append('C09.g (shared R-THREAD) an option value bound to a name that is itself a CLI option carries that very option')
    optname(chk, repo, 'C09.g', ['cli.call_alt_translation'], floor=0)
    # ------------------------------------------------------------------ Sec positions sorted in transcript order
    from rules.shared import sorted_before_use
    chk.rule('C09.h', 'R-ORDER: Sec positions attached to the transcript sequence are sorted in transcript order', 1)
    chk.clauses.append('C09.h the Sec positions attached to a transcript sequence are sorted after the strand-dependent coordinate conversion')
    sorted_before_use(chk, repo, 'C09.h', 'gtf.TranscriptAnnotationModel:TranscriptAnnotationModel.get_transcript_sequence', 'DNASeqRecordWithCoordinates', 'selenocysteine', 'the converted Sec positions are in genomic order, which is descending transcript order on the - strand; PVGNode.fix_selenocysteines and the Sec truncation consume them in ascending order (a - strand transcript with two Sec codons is translated wrongly)')
    from rules.shared import kwname
    chk.clauses.append('C09.kw (shared R-THREAD) parameters handed on as keyword arguments keep their name: no `a=b` between two parameters of one function')
    kwname(chk, repo, 'C09.kw', ['cli.call_alt_translation'], floor=0)
    # ------------------------------------------------------------------ i: the SECT pseudo-variant covers exactly the Sec codon
    from sa import sem as _s9
    chk.rule('C09.i', 'R-AFFINE-EQV: a SECT pseudo-variant is the 3-base interval [pos, pos + 3) of the transcript and is named after the gene position of its first base', 2)
    chk.clauses.append('C09.i create_variant_sect places the pseudo-variant on the three bases of the annotated Sec codon and derives its id from the gene coordinate of the codon start')
    cs = repo.func('seqvar.VariantRecord:create_variant_sect')
    chk.uses(cs)
    ncs = _s9.nf(repo, cs)
    chains9 = _s9.block_chains(ncs)
    from sa.affine import simple_aff, Aff
    locs = [(st, c) for st in ast.walk(ncs) if isinstance(st, ast.stmt) and _s9.own_stmt(st) for c in _s9.calls_in_stmt(st, 'FeatureLocation')]
    ok9 = len(locs) == 1
    got9 = None
    if ok9:
        st, c = locs[0]
        a0 = kwarg(c, 'start') or (c.args[0] if c.args else None)
        a1 = kwarg(c, 'end') or (c.args[1] if len(c.args) > 1 else None)
        f0 = simple_aff(_s9.expand_names(ncs, st, a0, chains=chains9)) if a0 is not None else None
        f1 = simple_aff(_s9.expand_names(ncs, st, a1, chains=chains9)) if a1 is not None else None
        got9 = (repr(f0), repr(f1))
        ok9 = f0 is not None and f1 is not None and f0 == Aff.sym('pos') and f1 == Aff.sym('pos') + 3
    chk.ob('C09.i', 'SECT location = [pos, pos + 3)', cs.where, ok9, f"SECT pseudo-variant is placed at {got9}, not on the three bases of the Sec codon [pos, pos + 3)",
           key=cs.qual + '::location', fn=cs.qual)
    # the identifier, by partial evaluation (module constants folded, locals substituted): 'SECT-' + (gene coordinate of pos) + 1
    from sa.peval import PEval, repo_consts, show as _show9
    pe9 = PEval(resolve_const=repo_consts(repo, cs.module), record=('VariantRecord',))
    outs9 = [o for o in pe9.run(cs.node, {}) if o.kind == 'return']
    ok9 = False
    got_id = None
    pa9 = [a.arg for a in cs.node.args.args]
    if len(outs9) == 1 and len(pa9) == 3:
        vr9 = [c for c in outs9[0].calls if c['name'] == 'VariantRecord']
        if len(vr9) == 1:
            kw9 = dict(vr9[0]['kwargs'])
            # positional form VariantRecord(location, ref, alt, _type, _id, attrs)
            for k_, v_ in zip(('location', 'ref', 'alt', '_type', '_id', 'attrs'), vr9[0]['args']):
                kw9.setdefault(k_, v_)
            got_id = _show9(kw9.get('_id'))
            want9 = '{0}.coordinate_genomic_to_gene({0}.coordinate_transcript_to_genomic({2}, {1}), {0}.transcripts[{1}].gene_id)'.format(*pa9)
            m9 = re.match(r"^f'SECT-\{(.*)\}'$", got_id or '')
            inner = re.sub(r'\s', '', m9.group(1)) if m9 else None
            w9 = re.sub(r'\s', '', want9)
            ok9 = inner in (w9 + '+1', '(' + w9 + ')+1', '1+' + w9) and kw9.get('_type') == 'SECT'
    chk.ob('C09.i', "SECT id = 'SECT-' + (gene coordinate of the codon start + 1)", cs.where, ok9,
           f"the SECT identifier is not derived from the gene coordinate of the first base of the codon (1-based): {got_id}", key=cs.qual + '::id', fn=cs.qual)
    from rules.shared import fresh_buffer_per_combination, w2f_tail_guard
    chk.clauses.append('C09.m (shared with C08.l) every W>F combination is applied to the original peptide; C09.n (shared with C05.n) the tail behind a reassigned W is kept')
    fresh_buffer_per_combination(chk, repo, 'C09.m')
    w2f_tail_guard(chk, repo, 'C09.n')
    from rules.shared import w2f_scan_complete
    chk.clauses.append('C09.j (shared R-COVER) every tryptophan of a peptide, the last residue included, gets its W>F candidate')
    w2f_scan_complete(chk, repo, 'C09.j')
    from rules.shared import options_live
    chk.clauses.append('C09.k (shared R-OPTION) every option callAltTranslation itself defines is read by its code: none silently falls back to a library default')
    options_live(chk, repo, 'C09.k', 'cli.call_alt_translation:add_subparser_call_alt_translation', 'cli.call_alt_translation:call_alt_translation', ('cli.call_alt_translation', 'cli.common'), floor=3)



"""C06 - peptide set independent of threads / file layout / index.

Clauses decided (DESIGN §4 C06): a drain of the dispatch accumulator, b result
processing independent of batch composition, c gather-from-all-pointers + sort,
d injective ordering key, e pointer registration appends.  Hash-seed clause: N/A.
"""
import ast
import re
from sa.model import unparse, norm_stmt, call_name, walk_no_nested, kwarg
from sa.cfg import CFG, iteration_paths
from sa import guards as G
from sa import sem

ENTRY = 'cli.call_variant_peptide:call_variant_peptide'
CONSUMER = 'caller_reducer'


def affine_last_atom(e, ordn, seq):
    """Return d if e is `ordn + d == len(seq)` (any arrangement), else None."""
    p = G.cmp_parts(e)
    if not p or p[1] != '==':
        return None
    def side(txt):
        t = txt.replace(' ', '')
        L = f"len({seq})"
        for d in range(-3, 4):
            forms_o = {f"{ordn}+{d}", f"({ordn}+{d})"} if d > 0 else ({ordn} if d == 0 else {f"{ordn}-{-d}"})
            if t in forms_o:
                return ('o', d)
            forms_l = {f"{L}+{d}"} if d > 0 else ({L} if d == 0 else {f"{L}-{-d}"})
            if t in forms_l:
                return ('l', d)
        return None
    a, b = side(p[0]), side(p[2])
    if not a or not b or a[0] == b[0]:
        return None
    o, l = (a, b) if a[0] == 'o' else (b, a)
    return o[1] - l[1]


def rule_drain(chk, repo, rid='C06.a'):
    """R-DRAIN on the transcript dispatch loop (shared with C05.f and C07.e)."""
    f = repo.func(ENTRY)
    chk.uses(f)
    fn = f.node
    cfg = CFG(fn)
    rel = f.module.relpath

    # ------------------------------------------------------------------ C06.a
    chk.rule(rid, 'R-DRAIN: accumulator filled in the transcript loop is flushed on every path to loop exit', 5)
    loops = [l for l in G.find_for(fn) if unparse(l.iter) == 'tx_sorted' or re.match(r'enumerate\(tx_sorted\b', unparse(l.iter))]
    if len(loops) != 1:
        from sa.model import AnalysisError
        raise AnalysisError(f"anchor={ENTRY}: loop over tx_sorted not found ({len(loops)})")
    loop = loops[0]
    # accumulator: appended in loop, consumed by CONSUMER
    consumers = []
    for c in G.find_calls(loop):
        txt = unparse(c)
        if call_name(c) == CONSUMER or (call_name(c) == 'map' and c.args and unparse(c.args[0]) == CONSUMER):
            consumers.append(c)
    chk.call_sites += len(consumers)
    acc = None
    for n in walk_no_nested(loop):
        if isinstance(n, ast.Call) and call_name(n) == 'append' and isinstance(n.func.value, ast.Name):
            nm = n.func.value.id
            if any(nm in G.reads_in(c) for c in consumers):
                acc = nm
    if not consumers or acc is None:
        from sa.model import AnalysisError
        raise AnalysisError(f"anchor={ENTRY}: dispatch accumulator / {CONSUMER} consumer not found")
    key0 = f"{ENTRY}::for tx_id in tx_sorted"

    # post-loop drain?
    parent_body = None
    for n in ast.walk(fn):
        for fld in ('body', 'orelse', 'finalbody'):
            b = getattr(n, fld, None)
            if isinstance(b, list) and loop in b:
                parent_body = b
    after = parent_body[parent_body.index(loop) + 1:] if parent_body else []
    post_drain = False
    for st in after:
        for c in G.find_calls(st):
            if (call_name(c) == CONSUMER or (call_name(c) == 'map' and c.args and unparse(c.args[0]) == CONSUMER)) \
                    and acc in G.reads_in(c):
                # guarded only by non-emptiness
                guards_ok = True
                for anc in repo.ancestors(c):
                    if anc is fn:
                        break
                    if isinstance(anc, ast.If):
                        t = unparse(anc.test).replace(' ', '')
                        if t not in {acc, f"len({acc})>0", f"len({acc})>=1", f"len({acc})!=0"}:
                            guards_ok = False
                post_drain = post_drain or guards_ok

    # in-loop flush guard
    def innermost_if(c):
        for anc in repo.ancestors(c):
            if anc is loop:
                return None
            if isinstance(anc, ast.If):
                yield anc
    guard_ifs = None
    for c in consumers:
        chain = [a for a in innermost_if(c) if a is not None]
        guard_ifs = chain if guard_ifs is None else [a for a in guard_ifs if a in chain]
    flush_if = guard_ifs[-1] if guard_ifs else None     # outermost common if inside the loop
    if flush_if is None and not post_drain:
        chk.ob(rid, 'flush guard', repo.loc(f, loop), False, 'no common flush test around the consumers and no post-loop drain', key=key0 + '::flush-guard')
        return None
    E = flush_if.test
    if isinstance(E, ast.Name):
        r = G.resolve_local(loop, E.id)
        if r is not None:
            E = r
    # ordinal
    ordn, offset_ok, ord_detail = None, False, ''
    seq = unparse(loop.iter)
    enum = isinstance(loop.iter, ast.Call) and call_name(loop.iter) == 'enumerate'
    if enum:
        seq = unparse(loop.iter.args[0])
        ordn = unparse(loop.target.elts[0])
        st_ = kwarg(loop.iter, 'start') or (loop.iter.args[1] if len(loop.iter.args) > 1 else None)
        enum_start = 0 if st_ is None else (st_.value if isinstance(st_, ast.Constant) and isinstance(st_.value, int) else None)
    last_found = False
    nonlast_ok = True
    every_iter_idiom = False
    THREADS = None
    for c in consumers:
        for anc in repo.ancestors(c):
            if anc is flush_if:
                break
            if isinstance(anc, ast.If):
                p = G.cmp_parts(anc.test)
                if p and p[1] == '>' and p[2] == '1':
                    THREADS = p[0]
    paths = iteration_paths(cfg, loop, max_paths=100000)
    chk.paths += len(paths)
    test_node = cfg.node_for(flush_if)
    for cj in G.conjuncts(E):
        t = unparse(cj).replace(' ', '')
        if t in {acc, f"len({acc})>0", f"len({acc})>=1", f"len({acc})!=0"}:
            continue
        ds = G.disjuncts(cj)
        has_last = False
        for d in ds:
            # candidate ordinals: names in d
            for nm in ([ordn] if ordn else sorted(G.reads_in(d))):
                dd = affine_last_atom(d, nm, seq)
                if dd is None:
                    continue
                # soundness of the ordinal
                if enum:
                    ok = enum_start is not None and dd == 1 - enum_start
                    ord_detail = f"enumerate index {nm} from {enum_start}, atom offset {dd}"
                else:
                    init = None
                    for st in (parent_body or [])[:parent_body.index(loop)]:
                        if isinstance(st, ast.Assign) and unparse(st.targets[0]) == nm and isinstance(st.value, ast.Constant):
                            init = st.value.value
                    incs_ok = True
                    before = None
                    for p in paths:
                        if p.end_kind() not in ('back', 'continue'):
                            continue
                        ids = p.node_ids()
                        incs = [i for i, nid in enumerate(ids) if isinstance(cfg.nodes[nid].ast, ast.AugAssign)
                                and cfg.nodes[nid].kind == 'stmt'
                                and unparse(cfg.nodes[nid].ast.target) == nm and isinstance(cfg.nodes[nid].ast.op, ast.Add)
                                and unparse(cfg.nodes[nid].ast.value) == '1']
                        if len(incs) != 1:
                            incs_ok = False
                            chk.ob(rid, f'ordinal {nm} advanced exactly once per iteration', repo.loc(f, loop), False,
                                   f"ordinal '{nm}' is advanced {len(incs)} times on an iteration path, so the last-iteration "
                                   f"test '{unparse(d)}' is not keyed on the loop's ordinal",
                                   key=key0 + f'::ordinal-{nm}', path=p.describe(rel), fn=f.qual)
                            break
                        if test_node in ids:
                            b = incs[0] < ids.index(test_node)
                            before = b if before is None else before
                            if b != before:
                                incs_ok = False
                    ok = incs_ok and init is not None and before is not None and dd == 1 - init - (1 if before else 0)
                    ord_detail = f"counter {nm} init={init} inc-before-test={before}, atom offset {dd}"
                    if not incs_ok:
                        ok = False
                if ok:
                    has_last = True
                    ordn = nm
                elif dd is not None and not has_last:
                    ord_detail += ' (UNSOUND)'
            tt = unparse(d).replace(' ', '')
            if THREADS and (tt.endswith(f"%{THREADS}==0") or tt == f"len({acc})>={THREADS}"):
                every_iter_idiom = True
        if has_last:
            last_found = True
        else:
            nonlast_ok = False
            chk.note(f"flush conjunct without last-iteration disjunct: {unparse(cj)}")
    if post_drain:
        chk.ob(rid, 'post-loop drain present', repo.loc(f, loop), True, fn=f.qual)
    else:
        chk.ob(rid, 'flush condition is implied by (last iteration and non-empty)', repo.loc(f, flush_if),
               last_found and nonlast_ok,
               f"flush test '{unparse(E)}' has no sound last-iteration disjunct for every conjunct ({ord_detail}); "
               "the final partial batch is not drained and there is no post-loop drain",
               key=key0 + '::last-iteration-disjunct', fn=f.qual)
        # flush test reached on every iteration path
        bad = [p for p in paths if p.end_kind() in ('back', 'continue') and test_node not in p.node_ids()]
        chk.ob(rid, 'flush test evaluated on every iteration path', repo.loc(f, flush_if), not bad,
               'an iteration path returns to the loop head without evaluating the flush test'
               ' (a skipped transcript in last position leaves the batch undrained)',
               key=key0 + '::flush-test-bypassed', path=bad[0].describe(rel) if bad else None, fn=f.qual)
    # single-element consumption
    for c in consumers:
        subs = [n for n in ast.walk(c) if isinstance(n, ast.Subscript) and unparse(n.value) == acc]
        if subs:
            chk.ob(rid, f'single-element consumption {unparse(c)} only when flush fires every iteration',
                   repo.loc(f, c), every_iter_idiom and THREADS is not None,
                   f"'{unparse(c)}' consumes one element of '{acc}' but the flush condition '{unparse(E)}' does not fire on "
                   "every iteration when the thread count is 1",
                   key=key0 + '::single-element-consumer', fn=f.qual)
        else:
            chk.ob(rid, f'whole-batch consumption {unparse(c)[:60]}', repo.loc(f, c), True, fn=f.qual)
    # reset after flush, inside the flush branch, after the consumers
    resets = [st for st in flush_if.body if isinstance(st, ast.Assign) and unparse(st.targets[0]) == acc
              and isinstance(st.value, (ast.List,)) and not st.value.elts]
    chk.ob(rid, f'{acc} reset in the flush branch after consumption', repo.loc(f, flush_if),
           len(resets) == 1 and all(resets[0].lineno > c.lineno for c in consumers),
           f"accumulator '{acc}' is not reset exactly once at the end of the flush branch", key=key0 + '::reset', fn=f.qual)
    # nothing else drops elements of acc
    other = [w for w in G.writes_in(loop.body) if w[0] == acc and w[1] not in ('call:append',) and w[2] not in resets]
    chk.ob(rid, f'no other write to {acc} in the loop', repo.loc(f, loop), not other,
           f"unexpected write to '{acc}': {[norm_stmt(G_w[2]) for G_w in other]}", key=key0 + '::other-writes', fn=f.qual)

    return dict(f=f, fn=fn, cfg=cfg, rel=rel, loop=loop, acc=acc, ordn=ordn, consumers=consumers)


def run(chk, repo):
    chk.clauses = [
        'C06.a the per-transcript dispatch accumulator is drained on every path to loop exit '
        '(last-iteration flush keyed on a sound ordinal, flush test reached on every iteration, '
        'single-element consumption only when the flush fires every iteration)',
        'C06.b each batch result is processed from that result and the peptide table only',
        'C06.g the identity (hash/eq) of a variant record includes the donor range attributes, so set() de-duplication cannot merge distinct splice events',
        'C06.c records of a transcript are gathered from ALL pointers of the key and sorted; '
        'filter_variants sorts its result; pointer registration appends',
        'C06.d processing order is a sort by an injective rank',
        'C06.e raw-file and index references parameterise the canonical pool identically (normalised exception, '
        'same six parameters) and the index branch looks the pool up by those parameters',
    ]
    chk.not_decided = ['equality of peptide sets across hash seeds (needs commutativity of graph algorithms)',
                       'index-vs-raw reference equality beyond parameter agreement (see C10/C12)']
    d_ = rule_drain(chk, repo, 'C06.a')
    if d_ is None:
        return
    f, fn, cfg, rel, loop, acc, ordn, consumers = (d_[k] for k in ('f', 'fn', 'cfg', 'rel', 'loop', 'acc', 'ordn', 'consumers'))

    # ------------------------------------------------------------------ C06.b
    chk.rule('C06.b', 'result processing depends only on the result and the table', 2)
    res_loops = [l for l in G.find_for(loop) if unparse(l.iter) == 'results']
    for rl in res_loops:
        tg = {n.id for n in ast.walk(rl.target) if isinstance(n, ast.Name)}
        forbidden = {acc, 'dispatch', 'tx_sorted'} | ({ordn} if ordn else set())
        reads = set()
        for st in rl.body:
            reads |= G.reads_in(st)
        bad = reads & forbidden
        chk.ob('C06.b', 'result loop reads no batch state', repo.loc(f, rl), not bad,
               f"processing of a batch result reads batch-dependent state {sorted(bad)}", key=ENTRY + '::results-loop-reads', fn=f.qual)
    chk.ob('C06.b', 'results consumed by a single in-order loop', repo.loc(f, loop), len(res_loops) == 1,
           f"{len(res_loops)} loops over results", key=ENTRY + '::results-loop', fn=f.qual)
    # every consumer's value is bound to `results`
    for c in consumers:
        st = repo.enclosing_stmt(c)
        ok = isinstance(st, ast.Assign) and unparse(st.targets[0]) == 'results'
        chk.ob('C06.b', 'consumer output bound to results', repo.loc(f, c), ok,
               f"output of '{unparse(c)[:50]}' is not bound to 'results' (dropped batch output)",
               key=ENTRY + '::consumer-binding::' + ('map' if call_name(c) == 'map' else 'direct'), fn=f.qual)

    # ------------------------------------------------------------------ C06.d
    chk.rule('C06.d', 'processing order = sort by injective rank of the annotation', 3)
    ts = [n for n in walk_no_nested(fn) if isinstance(n, ast.Assign) and unparse(n.targets[0]) == 'tx_sorted']
    ok = False
    if len(ts) == 1 and isinstance(ts[0].value, ast.Call) and call_name(ts[0].value) == 'sorted':
        k = kwarg(ts[0].value, 'key')
        ok = isinstance(k, ast.Lambda) and unparse(k.body) == f"tx_rank[{k.args.args[0].arg}]" \
            and 'pointers' in unparse(ts[0].value.args[0])
    chk.ob('C06.d', 'tx_sorted = sorted(pool.pointers..., key=rank)', repo.loc(f, ts[0]) if ts else f.where, ok,
           'tx_sorted is not a sort of the pointer keys by tx_rank', key=ENTRY + '::tx_sorted', fn=f.qual)
    tr = [n for n in walk_no_nested(fn) if isinstance(n, ast.Assign) and unparse(n.targets[0]) == 'tx_rank']
    chk.ob('C06.d', 'tx_rank from anno.get_transcript_rank()', repo.loc(f, tr[0]) if tr else f.where,
           len(tr) == 1 and unparse(tr[0].value).endswith('.get_transcript_rank()'),
           'tx_rank is not the annotation rank', key=ENTRY + '::tx_rank', fn=f.qual)
    gr = repo.func('gtf.GenomicAnnotation:GenomicAnnotation.get_transcript_rank')
    chk.uses(gr)
    # rank[tx] = i; i += 1 in a loop over self.transcripts  (or enumerate)
    body = gr.node
    fl = [n for n in walk_no_nested(body) if isinstance(n, ast.For)]
    inj = False
    if len(fl) == 1 and 'self.transcripts' in unparse(fl[0].iter):
        stores = [n for n in fl[0].body if isinstance(n, ast.Assign) and isinstance(n.targets[0], ast.Subscript)]
        incs = [n for n in fl[0].body if isinstance(n, ast.AugAssign) and isinstance(n.op, ast.Add) and unparse(n.value) == '1']
        if len(stores) == 1:
            v = unparse(stores[0].value)
            if isinstance(fl[0].iter, ast.Call) and call_name(fl[0].iter) == 'enumerate':
                inj = v == unparse(fl[0].target.elts[0])
            else:
                inj = len(incs) == 1 and unparse(incs[0].target) == v and len(fl[0].body) == 2
    if not fl:
        # {tx: i for i, tx in enumerate(<transcripts>)}: the same enumeration as a dict comprehension
        for dc in [x for x in ast.walk(body) if isinstance(x, ast.DictComp) and len(x.generators) == 1 and not x.generators[0].ifs]:
            g_ = dc.generators[0]
            if isinstance(g_.iter, ast.Call) and call_name(g_.iter) == 'enumerate' and 'self.transcripts' in unparse(g_.iter) and isinstance(g_.target, ast.Tuple) \
                    and len(g_.target.elts) == 2 and len(g_.iter.args) == 1 and not g_.iter.keywords:
                inj = unparse(dc.value) == unparse(g_.target.elts[0]) and unparse(dc.key) == unparse(g_.target.elts[1])
    chk.ob('C06.d', 'rank is built by enumeration (injective)', gr.where, inj,
           'get_transcript_rank does not assign consecutive distinct ranks', key=gr.qual + '::enumeration', fn=gr.qual)

    # ------------------------------------------------------------------ C06.c
    chk.rule('C06.c', 'gather from all pointers, sort; registration appends', 7)
    gi = repo.func('seqvar.VariantRecordPoolOnDisk:VariantRecordPoolOnDisk.__getitem__')
    chk.uses(gi)
    pl = [l for l in G.find_for(gi.node) if re.fullmatch(r'self\.pointers\[\w+\]', unparse(l.iter))]
    def accumulates(lp):
        """the loop body adds <target>.load() to an accumulator on every iteration: acc += p.load() / acc.extend(p.load()) / acc.update(...)"""
        tg = unparse(lp.target)
        for s_ in lp.body:
            if isinstance(s_, ast.AugAssign) and isinstance(s_.op, ast.Add) and isinstance(s_.value, ast.Call) and call_name(s_.value) == 'load' \
                    and unparse(s_.value.func.value) == tg:
                return True
            if isinstance(s_, ast.Expr) and isinstance(s_.value, ast.Call) and call_name(s_.value) in ('extend', 'update') and len(s_.value.args) == 1 \
                    and isinstance(s_.value.args[0], ast.Call) and call_name(s_.value.args[0]) == 'load' and unparse(s_.value.args[0].func.value) == tg:
                return True
        return False
    ok = len(pl) == 1 and accumulates(pl[0]) \
        and not any(isinstance(n, (ast.Break, ast.Return, ast.Continue)) for s in pl[0].body for n in ast.walk(s))
    if not pl:
        # comprehension forms: [r for p in self.pointers[k] for r in p.load()] (unfiltered), or chain.from_iterable(p.load() for p in ...)
        for c in ast.walk(gi.node):
            if isinstance(c, (ast.ListComp, ast.GeneratorExp, ast.SetComp)) and re.fullmatch(r'self\.pointers\[\w+\]', unparse(c.generators[0].iter)) \
                    and isinstance(c.generators[0].target, ast.Name) and not any(g.ifs for g in c.generators):
                tg = c.generators[0].target.id
                if len(c.generators) == 2 and unparse(c.generators[1].iter) == f"{tg}.load()" and unparse(c.elt) == unparse(c.generators[1].target):
                    ok = True
                if len(c.generators) == 1 and unparse(c.elt) == f"{tg}.load()":
                    par = repo.parent(c)
                    ok = isinstance(par, ast.Call) and unparse(par.func) in ('chain.from_iterable', 'itertools.chain.from_iterable')
    chk.ob('C06.c', '__getitem__ loads every pointer of the key', gi.where, ok,
           '__getitem__ does not accumulate pointer.load() over all pointers of the key (records from some files lost)',
           key=gi.qual + '::all-pointers', fn=gi.qual)
    gcfg = CFG(gi.node)
    rets = [n for n in gcfg.nodes if n.kind == 'stmt' and isinstance(n.ast, ast.Return)]
    sorts = [n.id for n in gcfg.nodes if n.kind == 'stmt' and isinstance(n.ast, ast.Expr) and unparse(n.ast.value) == 'series.sort()']
    for r in rets:
        ok = unparse(r.ast.value) == 'series' and any(gcfg.dominates(s, r.id) for s in sorts)
        chk.ob('C06.c', 'series.sort() dominates return series', repo.loc(gi, r.ast), ok,
               'the variant series is returned without passing through series.sort() (order depends on file layout / hashing)',
               key=gi.qual + '::sort-before-return', fn=gi.qual)
    ss = repo.func('seqvar.VariantRecordPoolOnDisk:TranscriptionalVariantSeries.sort')
    chk.uses(ss)
    sorted_attrs = {unparse(c.func.value) for c in G.find_calls(ss.node, 'sort')}
    # only `transcriptional` feeds an order-sensitive consumer (create_variant_graph walks the
    # variants in order); fusion / circRNA units are called independently of each other.
    need = {'self.transcriptional'}
    chk.ob('C06.c', 'series.sort sorts the order-sensitive slot (transcriptional)', ss.where, need <= sorted_attrs,
           f'TranscriptionalVariantSeries.sort does not sort {sorted(need - sorted_attrs)}', key=ss.qual + '::attrs', fn=ss.qual)
    fv = repo.func('seqvar.VariantRecordPoolOnDisk:VariantRecordPoolOnDisk.filter_variants')
    chk.uses(fv)
    fcfg = CFG(fv.node)
    for r in [n for n in fcfg.nodes if n.kind == 'stmt' and isinstance(n.ast, ast.Return)]:
        # the returned value is sorted: `return sorted(...)`, a name bound to sorted(...), or a name whose .sort() dominates the return
        rv = sem.expand_names(fv.node, r.ast, r.ast.value, allow_calls=('sorted',)) if r.ast.value is not None else None
        s2 = [n.id for n in fcfg.nodes if n.kind == 'stmt' and isinstance(n.ast, ast.Expr) and unparse(n.ast.value) == f"{unparse(r.ast.value)}.sort()"]
        chk.ob('C06.c', 'filter_variants sorts before returning', repo.loc(fv, r.ast),
               any(fcfg.dominates(s, r.id) for s in s2) or (isinstance(rv, ast.Call) and unparse(rv.func) == 'sorted' and not any(k.arg == 'key' for k in rv.keywords)),
               'filter_variants returns a set-derived list without sorting', key=fv.qual + '::sort-before-return', fn=fv.qual)
    for q in ('seqvar.VariantRecordPoolOnDisk:VariantRecordPoolOnDisk.load_index',
              'seqvar.VariantRecordPoolOnDisk:VariantRecordPoolOnDisk.generate_index'):
        g = repo.func(q)
        chk.uses(g)
        loops2 = [l for l in G.find_for(g.node) if unparse(l.target) == 'pointer']
        ok = False
        if len(loops2) == 1 and len(loops2[0].body) == 1 and isinstance(loops2[0].body[0], ast.If):
            i = loops2[0].body[0]
            ok = unparse(i.test) == 'pointer.key in self.pointers' \
                and [norm_stmt(s) for s in i.body] == ['self.pointers[pointer.key].append(pointer)'] \
                and [norm_stmt(s) for s in i.orelse] == ['self.pointers[pointer.key] = [pointer]']
        elif len(loops2) == 1 and len(loops2[0].body) == 1:
            ok = norm_stmt(loops2[0].body[0]) == 'self.pointers.setdefault(pointer.key, []).append(pointer)'
        chk.ob('C06.c', 'pointer registration appends (never overwrites) for every pointer', g.where, ok,
               'pointers of a key seen before are overwritten or dropped (records of earlier files / runs lost)',
               key=q + '::append', fn=q)
    op = repo.func('seqvar.VariantRecordPoolOnDisk:VariantRecordPoolOnDiskOpener.open')
    chk.uses(op)
    fl = [l for l in G.find_for(op.node) if unparse(l.iter) == 'self.pool.gvf_files']
    ok = len(fl) == 1
    if ok:
        ifs = [s for s in fl[0].body if isinstance(s, ast.If)]
        ok = len(ifs) == 1 and any(call_name(c) == 'load_index' for c in G.find_calls(ifs[0])) and \
            any(call_name(c) == 'generate_index' for s in ifs[0].orelse for c in G.find_calls(s)) and \
            not any(isinstance(n, (ast.Break, ast.Continue, ast.Return)) for n in ast.walk(fl[0]))
    chk.ob('C06.c', 'every GVF file is indexed (idx or generated), none skipped', op.where, ok,
           'open() does not register pointers for every GVF file', key=op.qual + '::every-file', fn=op.qual)

    rule_identity(chk, repo, 'C06.g')
    # C06.h (shared with C12.a / C04.f): the canonical pool an index directory hands out is the one digested with ALL the requested
    # parameters - the lookup key holds every digestion parameter (the cleavage exception included) and whole keys are compared
    from rules.C12 import lookup_key_rules
    chk.rule('C06.h', 'R-KEYS (shared with C12.a): the pool lookup key == the digestion parameters; lookup compares complete keys', 3)
    chk.clauses.append('C06.h (shared with C12.a / C04.f) raw-file and index references filter against the same canonical pool: the index lookup compares every digestion parameter, the cleavage exception included')
    lookup_key_rules(chk, repo, 'C06.h')

    # ------------------------------------------------------------------ C06.e
    from rules.C10 import rule_thread
    rule_thread(chk, repo, rid='C06.e', quals=('cli.common:load_references', 'cli.generate_index:generate_index'))
    lr = repo.func('cli.common:load_references')
    lc = G.find_calls(lr.node, 'load_canonical_peptides')
    ok = len(lc) == 1 and [unparse(a) for a in lc[0].args] == ['cleavage_params']
    chk.ob('C06.e', 'index branch loads the pool by the same cleavage_params', repo.loc(lr, lc[0]) if lc else lr.where, ok,
           'the index branch does not look the canonical pool up by cleavage_params', key='cli.common:load_references::index-lookup', fn=lr.qual)

    # ------------------------------------------------------------------ C06.f (shared with C02.c)
    # a retry that mutates the shared CleavageParams leaks lowered limits to later transcripts only when the
    # reducer runs in-process (--threads 1): the peptide set would depend on the thread count
    from rules.C02 import retry_effects
    retry_effects(chk, repo, 'C06.f')


def rule_identity(chk, repo, rid='C06.g'):
    gi = repo.func('seqvar.VariantRecordPoolOnDisk:VariantRecordPoolOnDisk.__getitem__')
    # ------------------------------------------------------------------ C06.g
    chk.rule(rid, 'R-KEYS: set identity of a variant record covers the donor range / fusion acceptor it applies (set() de-duplication is file-order independent)', 4)
    vr = repo.cls('seqvar.VariantRecord:VariantRecord')

    def attr_keys(fn):
        ks = set()
        for n in ast.walk(fn.node):
            if isinstance(n, ast.Subscript) and unparse(n.value) == 'self.attrs' and isinstance(n.slice, ast.Constant):
                ks.add(n.slice.value)
            if isinstance(n, ast.Call) and unparse(n.func) == 'self.attrs.get' and n.args and isinstance(n.args[0], ast.Constant):
                ks.add(n.args[0].value)
        return ks
    hf, ef = vr.methods.get('__hash__'), vr.methods.get('__eq__')
    if hf is None or ef is None:
        raise AnalysisError('anchor=seqvar.VariantRecord:VariantRecord: __hash__ / __eq__ not found')
    chk.uses(hf, ef)
    identity = attr_keys(hf) | attr_keys(ef)
    getters = [m for nm, m in vr.methods.items() if nm.startswith('get_donor_') or nm in ('get_accepter_position', 'accepter_transcript_id')]
    if len(getters) < 4:
        raise AnalysisError('anchor=seqvar.VariantRecord:VariantRecord: get_donor_* accessors not found')
    uses_set = any(isinstance(n, ast.Call) and call_name(n) == 'set' for n in ast.walk(gi.node))
    for m in getters:
        ks = attr_keys(m)
        chk.ob(rid, f"{m.name}: attribute(s) {sorted(ks)} take part in __hash__ / __eq__ (records are de-duplicated with set(): {uses_set})", hf.where,
               bool(ks) and ks <= identity,
               f"{sorted(ks - identity)} is read when the variant is applied to the graph but is not part of the record identity: two splice events anchored at the "
               "same position with different donor ranges (or two fusions of one donor breakpoint with different acceptors) collapse in set(records), and which "
               "one survives depends on the order of the GVF files",
               key=f"{hf.qual}::identity-covers::{m.name}", fn=hf.qual)


"""C19 - filterFasta keeps exactly the entries satisfying its criteria.

a keep-decision shape: peptide added iff some entry kept; entries kept only under should_keep; sequences never assigned
b R-POLARITY cutoff occurs once as `exprs[tx] >= cutoff` (accept); miscleavage bounds are `is not None`-guarded rejects `len < lo`, `len > hi`
c R-TAINT literal: exception literal is a table member
d R-SIBLING entry classifiers (fusion / circRNA / splice-altering) all decide by parsing the label into typed identifiers
e decision table: the if/elif order denylist -> keep-all-noncoding -> keep-all-coding -> expression
"""
import ast
import re
from sa.model import unparse, norm_stmt, call_name, kwarg, walk_no_nested, AnalysisError
from sa.cfg import CFG, iteration_paths, literal
from sa import guards as G
from sa import flow
from sa import polarity as P

F = 'aa.VariantPeptidePool:VariantPeptidePool.filter'


def run(chk, repo):
    chk.clauses = [
        'C19.a a peptide is added to the output iff its keep list is non-empty; an entry enters keep only when should_keep is true; no sequence is assigned',
        'C19.b a stricter cutoff never keeps more (single occurrence, `>= cutoff`, accept context); miscleavage bounds reject `count < lo` / `count > hi` and are '
        'applied whenever the bound is not None (0 is a bound)',
        'C19.c the enzyme exception literal is a key of EXPASY_RULES',
        'C19.d entry classifiers decide from the parsed typed identifier (all circRNA prefixes included)',
        'C19.e decision order: denylisted (unless canonical and keep-canonical) -> keep-all-noncoding -> keep-all-coding -> expression / exemptions',
    ]
    chk.not_decided = ['idempotence', 'the exemption lattice beyond polarity and order']
    f = repo.func(F)
    chk.uses(f)
    cfg = CFG(f.node)
    rel = f.module.relpath
    loop = next((l for l in G.find_for(f.node) if unparse(l.iter) == 'self.peptides'), None)
    if loop is None:
        raise AnalysisError(f"anchor={F}: peptide loop not found")

    # ------------------------------------------------------------------ a
    chk.rule('C19.a', 'keep-decision shape', 4)
    add = [n for n in cfg.nodes if n.kind == 'stmt' and norm_stmt(n.ast) == 'filtered_pool.peptides.add(peptide)']
    ok = len(add) == 1 and G.facts_at(cfg, add[0].id).get('keep') is True
    chk.ob('C19.a', 'peptide added only when keep is non-empty', repo.loc(f, add[0].ast) if add else f.where, ok,
           'a peptide can be added with an empty keep list', key=F + '::add-iff-keep', fn=f.qual)
    ap = [n for n in cfg.nodes if n.kind == 'stmt' and norm_stmt(n.ast) == 'keep.append(entry)']
    # (under which condition the single append is reached is decided, as a boolean function, by C19.e)
    ok = len(ap) == 1
    chk.ob('C19.a', 'one place appends the entry to keep (its condition is the keep rule, C19.e)', repo.loc(f, ap[0].ast) if ap else f.where, ok,
           f"{len(ap)} statements append an entry to keep", key=F + '::keep-iff-should', fn=f.qual)
    seqw = [norm_stmt(w[2]) for w in G.writes_in(loop.body) if isinstance(w[2], ast.Assign) and unparse(w[2].targets[0]).endswith('.seq')]
    chk.ob('C19.a', 'sequences are never assigned', repo.loc(f, loop), not seqw, f"sequence writes {seqw}", key=F + '::seq-unchanged', fn=f.qual)
    ki = [n for n in walk_no_nested(loop) if isinstance(n, ast.Assign) and unparse(n.targets[0]) == 'keep']
    ok = len(ki) == 1 and isinstance(ki[0].value, ast.List) and not ki[0].value.elts and ki[0] in loop.body
    chk.ob('C19.a', 'keep is reset for every peptide', repo.loc(f, loop), ok, 'keep list is not reset per peptide', key=F + '::keep-reset', fn=f.qual)
    # the header written back: <delimiter>.join(str(e) for e in keep), through whatever locals
    from sa import sem as _sa
    from sa.canon import _Expr as _CanonExpr
    pv = loop.target.id if isinstance(loop.target, ast.Name) else 'peptide'
    descs = [n for n in walk_no_nested(loop) if isinstance(n, ast.Assign) and unparse(n.targets[0]) == f'{pv}.description']
    ok = False
    got_lab = None
    if len(descs) == 1:
        v = _sa.expand_names(f.node, descs[0], descs[0].value, allow_calls=('join', 'str'))
        v = _sa.comp_alpha(_CanonExpr().visit(ast.fix_missing_locations(v)))
        got_lab = unparse(v)
        ok = bool(re.match(r'^[\w.]+\.join\(\(str\(_c0\) for _c0 in keep\)\)$', got_lab))
    chk.ob('C19.a', 'output header = kept entries only', repo.loc(f, loop), ok, f"header not rebuilt from keep ({got_lab})", key=F + '::label', fn=f.qual)

    # ------------------------------------------------------------------ b
    chk.rule('C19.b', 'R-POLARITY: cutoff and miscleavage bounds', 4)
    occ = [n for n in ast.walk(f.node) if isinstance(n, ast.Compare) and any(isinstance(x, ast.Name) and x.id == 'cutoff' for x in ast.walk(n))]
    ok = len(occ) == 1 and literal(occ[0]) == ('cutoff <= exprs[tx]', True)
    # context: inside `all(...)` feeding should_keep
    ctx = False
    if occ:
        anc = list(repo.ancestors(occ[0]))
        # (that this all(...) enters the keep decision positively is part of the truth-table comparison of C19.e)
        ctx = any(isinstance(a, ast.Call) and call_name(a) == 'all' for a in anc)
    chk.ob('C19.b', 'cutoff: single occurrence `exprs[tx] >= cutoff` under all(...) into should_keep', repo.loc(f, occ[0]) if occ else f.where, ok and ctx,
           f"cutoff occurrences {[unparse(o) for o in occ]}: a stricter cutoff could keep more", key=F + '::cutoff', fn=f.qual)
    # miscleavage bounds, decided from the must-facts at the rejecting `continue`s of the peptide loop: for bound i the reject needs
    # (bound i is not None) and (count beyond bound i), nothing else apart from the optional `any(bound is not None)` entry test
    conts = _sa.facts_where(f.node, lambda st: isinstance(st, ast.Continue))
    chains_b = _sa.block_chains(f.node)
    found = {0: [], 1: []}
    for st_, fx in conts:
        if fx is None or not any(st_ is x for x in ast.walk(loop)):
            continue
        lits = _sa.sure_literals(fx)
        for (t, p) in lits:
            m0 = re.match(r'^len\((.+)\) < miscleavage_range\[0\]$', t)
            m1 = re.match(r'^miscleavage_range\[1\] < len\((.+)\)$', t)
            for idx, m_ in ((0, m0), (1, m1)):
                if m_ and p:
                    cnt = ast.parse(m_.group(1), mode='eval').body
                    cnt = _sa.expand_names(f.node, st_, cnt, chains=chains_b, allow_calls=('find_all_enzymatic_cleave_sites',))
                    is_sites = isinstance(cnt, ast.Call) and call_name(cnt) == 'find_all_enzymatic_cleave_sites' and unparse(cnt.func.value) == pv
                    rest = {l for l in lits if l != (t, p)}
                    guard = (f"miscleavage_range[{idx}] is None", False)
                    extra = {l for l in rest - {guard} if not (l[0].startswith('any(') and 'miscleavage_range' in l[0] and 'is not None' in l[0] and l[1])
                             and not re.match(r'^(len\(.+\) < miscleavage_range\[0\]|miscleavage_range\[1\] < len\(.+\)|miscleavage_range\[[01]\] is None)$', l[0])}
                    found[idx].append((is_sites and guard in rest and not extra, sorted(lits)))
    for idx, what in ((0, 'lower'), (1, 'upper')):
        ok = len(found[idx]) == 1 and found[idx][0][0]
        chk.ob('C19.b', f"miscleavage {what} bound: reject iff bound is not None and count {'<' if idx == 0 else '>'} bound", f.where, ok,
               f"{what} bound reject is taken under {[x[1] for x in found[idx]] or 'no recognisable test'} (expected `miscleavage_range[{idx}] is not None and ...`): a bound of 0 must still be "
               "applied and the comparison must be a reject", key=F + f'::misc-{what}', fn=f.qual)
    # the filter is entered whenever a bound is given: any test on the way to the cleave-site count is `any(x is not None for x in miscleavage_range)`
    site_stmts = _sa.facts_where(f.node, lambda st: _sa.own_stmt(st) and bool(_sa.calls_in_stmt(st, 'find_all_enzymatic_cleave_sites')))
    site_tests = _sa.facts_at_tests(f.node, lambda e: any(isinstance(c, ast.Call) and call_name(c) == 'find_all_enzymatic_cleave_sites' for c in ast.walk(e)))
    entry_lits = [(_sa.sure_literals(fx), st_) for st_, fx in site_stmts] + [(_sa.sure_literals(fx), own) for _e, own, fx in site_tests]
    ok = bool(entry_lits)
    bad_entry = None
    for lits, _st in entry_lits:
        for (t, p) in lits:
            fine = (t.startswith('any(') and 'miscleavage_range' in t and 'is not None' in t and p) or \
                (re.match(r'^miscleavage_range\[[01]\] is None$', t) and not p) or \
                bool(re.match(r'^(len\(.+\) < miscleavage_range\[0\]|miscleavage_range\[1\] < len\(.+\))$', t))
            if not fine:
                ok, bad_entry = False, (t, p)
    chk.ob('C19.b', 'miscleavage filter entered when any bound is not None', f.where, ok,
           f"the miscleavage count is only reached under {bad_entry}", key=F + '::misc-outer', fn=f.qual)

    # ------------------------------------------------------------------ c
    chk.rule('C19.c', 'R-TAINT literal', 1)
    R1 = ast.literal_eval(repo.const('aa.expasy_rules', 'EXPASY_RULES'))
    for c in [c for c in G.find_calls(f.node, 'find_all_enzymatic_cleave_sites')]:
        arg = kwarg(c, 'exception') or (c.args[1] if len(c.args) > 1 else None)
        kind, info = flow.classify(f, arg) if arg is not None else ('literal', [None])
        chk.ob('C19.c', f"{unparse(c)[:60]}", repo.loc(f, c), kind == 'literal' and all(v is None or v in R1 for v in info),
               f"exception {info} ({kind}) not in EXPASY_RULES", key=F + '::exception-literal', fn=f.qual)
        r = c.args[0] if c.args else kwarg(c, 'rule')
        chk.ob('C19.c', 'miscleavages counted with the requested enzyme', repo.loc(f, c), r is not None and unparse(r) == 'enzyme', 'enzyme not threaded', key=F + '::enzyme', fn=f.qual)

    # ------------------------------------------------------------------ d
    chk.rule('C19.d', 'R-SIBLING: classifiers decide from parsed identifiers', 3)
    for nm, cls in (('is_fusion', 'FusionVariantPeptideIdentifier'), ('is_circ_rna', 'CircRNAVariantPeptideIdentifier'), ('is_splice_altering', 'BaseVariantPeptideIdentifier')):
        g = repo.func('aa.VariantPeptideLabel:VariantPeptideInfo.' + nm)
        chk.uses(g)
        t = unparse(g.node)
        ok = '_id = pi.parse_variant_peptide_id(self.original_label, set())[0]' in t and f"isinstance(_id, pi.{cls})" in t
        chk.ob('C19.d', f"{nm}: parse_variant_peptide_id + isinstance({cls})", g.where, ok,
               f"{nm} no longer decides from the parsed identifier type (a prefix shortcut misses other prefixes of the same kind, e.g. 'CI-' for circRNA)",
               key=g.qual + '::parsed', fn=g.qual)
    pp = repo.func('aa.VariantPeptideIdentifier:parse_variant_peptide_id')
    # the condition under which a header field selects the circRNA identifier type, as a boolean function of the prefix tests
    from sa import sem as _s19d
    floops = [l for l in walk_no_nested(pp.node) if isinstance(l, ast.For) and any(isinstance(x, ast.Name) and x.id == 'CircRNAVariantPeptideIdentifier' for x in ast.walk(l))]
    floops = [l for l in floops if not any(m is not l and any(x is m for x in ast.walk(l)) for m in floops)]      # innermost
    okc, detc = False, 'the loop over the header fields was not found'
    if len(floops) == 1:
        lp_ = floops[0]
        fld = lp_.target.elts[-1].id if isinstance(lp_.target, ast.Tuple) and isinstance(lp_.target.elts[-1], ast.Name) else (lp_.target.id if isinstance(lp_.target, ast.Name) else 'field')
        ec = _s19d.emit_condition(pp.node, lp_.body, lambda st: _s19d.own_stmt(st) and any(isinstance(x, ast.Name) and x.id == 'CircRNAVariantPeptideIdentifier' for x in ast.walk(st)))
        if ec is None:
            detc = 'the dispatch contains a construct that is not understood'
        else:
            want_c = ast.parse(f"(not {fld}.startswith(str(VariantPrefix.FUSION))) and ({fld}.startswith(str(VariantPrefix.CI)) or {fld}.startswith(str(VariantPrefix.CIRC)))", mode='eval').body
            # positional validity tests (`i != 0` raises) may strengthen the condition; only the prefix part is compared: they are assumed to pass
            class DropIdx(ast.NodeTransformer):
                def visit_Compare(self, n):
                    if len(n.ops) == 1 and isinstance(n.left, ast.Name) and isinstance(n.comparators[0], ast.Constant) and n.comparators[0].value == 0:
                        return ast.Constant(isinstance(n.ops[0], ast.Eq))
                    return n
            got_c = DropIdx().visit(ec[0])
            eqv, wit = _s19d.tt_equal(ast.fix_missing_locations(got_c), want_c)
            okc = eqv is True
            detc = f"the circRNA identifier type is selected under `{unparse(ec[0])[:160]}`"
    chk.ob('C19.d', 'header parser maps both CIRC and CI prefixes to circRNA identifiers', pp.where, okc, 'circRNA prefix dispatch altered: ' + detc,
           key=pp.qual + '::circ-prefixes', fn=pp.qual)

    # ------------------------------------------------------------------ e
    chk.rule('C19.e', 'decision order of the keep rule', 1)
    # the keep decision as a boolean function of its conditions, compared by truth table with the documented decision list; the way the
    # chain is nested or which intermediate locals it uses does not matter
    from sa import sem as _s19
    # the entry loop: the innermost loop in which an entry is appended to the keep list; the decision = the condition under which that append
    # is reached (a flag such as should_keep that the append is guarded by is replaced by the value the chain gives it)
    def is_keep(st):
        return isinstance(st, ast.Expr) and isinstance(st.value, ast.Call) and call_name(st.value) == 'append' and unparse(st.value.func.value) == 'keep'
    eloops = [l for l in walk_no_nested(loop) if isinstance(l, ast.For) and any(is_keep(x) for x in ast.walk(l))]
    eloops = [l for l in eloops if not any(m is not l and any(x is m for x in ast.walk(l)) for m in eloops)]      # innermost
    if len(eloops) != 1:
        raise AnalysisError(f"anchor={F}: the loop that appends entries to the keep list not found")
    PUREC = ('get_transcript_ids', 'is_circ_rna', 'is_fusion', 'is_splice_altering', 'any', 'all')
    ec19 = _s19.emit_condition(f.node, eloops[0].body, is_keep, allow_calls=PUREC)
    got = None
    if ec19 is not None:
        got = ec19[0]
        flags = {n.id for n in ast.walk(got) if isinstance(n, ast.Name)} & {t.id for st_ in ast.walk(eloops[0]) if isinstance(st_, ast.Assign) for t in st_.targets if isinstance(t, ast.Name)}
        for fl in sorted(flags):
            dv = _s19.decision_value(f.node, eloops[0].body, fl, allow_calls=PUREC)
            if dv is None:
                got = None
                break

            class _Sub(ast.NodeTransformer):
                def visit_Name(self, n):
                    import copy as _c
                    return _c.deepcopy(dv) if n.id == fl else n
            got = _Sub().visit(got)
        if got is not None:
            got = ast.fix_missing_locations(got)
    ev_ = eloops[0].target.id if isinstance(eloops[0].target, ast.Name) else 'entry'
    TX = f'{ev_}.get_transcript_ids()'
    deny = '(denylist is not None and peptide.seq in denylist)'
    canon = f'((not {ev_}.is_circ_rna()) and {TX}[0] in coding_transcripts)'
    allnc = f'(not any(x in coding_transcripts for x in {TX}))'
    allc = f'all(x in coding_transcripts for x in {TX})'
    expr = f'({ev_}.is_fusion() or {ev_}.is_circ_rna() or {ev_}.is_splice_altering() or all(exprs[tx] >= cutoff for tx in {TX}))'
    want_e = ast.parse(f'False if ({deny} and not (keep_canonical and {canon})) else (True if (keep_all_noncoding and {allnc}) else '
                       f'(True if (keep_all_coding and {allc}) else (True if exprs is None else {expr})))', mode='eval').body
    stale = []
    if got is None and ec19 is not None:
        # is a flag the emission reads assigned on every path of the iteration?  If not it carries the previous entry's value.
        import copy as _cp
        syn = ast.parse('def _it():\n    for _e in _es:\n        pass').body[0]
        syn.body[0].body = _cp.deepcopy(eloops[0].body)
        ast.fix_missing_locations(syn)
        flags0 = {n.id for n in ast.walk(ec19[0]) if isinstance(n, ast.Name)} & {t.id for st_ in ast.walk(f.node) if isinstance(st_, ast.Assign) for t in st_.targets if isinstance(t, ast.Name)}
        for fl in sorted(flags0):
            def _tr(st_, S, fl=fl):
                if isinstance(st_, (ast.Assign, ast.AnnAssign)) and any(isinstance(t, ast.Name) and t.id == fl for t in (st_.targets if isinstance(st_, ast.Assign) else [st_.target])):
                    return frozenset(S | {'set'})
                return S
            cfg_s, st_s = _s19.must_set_flow(syn, _tr)
            for n_ in cfg_s.nodes:
                if n_.kind == 'stmt' and is_keep(n_.ast) or (n_.kind == 'test' and any(isinstance(x, ast.Name) and x.id == fl for x in ast.walk(n_.ast))):
                    if st_s.get(n_.id) is not None and 'set' not in st_s[n_.id]:
                        stale.append(fl)
    if stale:
        chk.ob('C19.e', 'denylist -> noncoding -> coding -> expression', repo.loc(f, loop), False,
               f"the flag(s) {sorted(set(stale))} that decide whether an entry is kept are not assigned on every path of the iteration over the entries: "
               'an entry that takes such a path is kept or dropped by the decision made for the PREVIOUS entry', key=F + '::decision-order', fn=f.qual)
    elif got is None:
        chk.undecided('C19.e', 'denylist -> noncoding -> coding -> expression', repo.loc(f, loop), 'the value of should_keep could not be expressed as one decision', key=F + '::decision-order', fn=f.qual)
    else:
        eqv, wit = _s19.tt_equal(got, want_e)
        if eqv is None:
            chk.undecided('C19.e', 'denylist -> noncoding -> coding -> expression', repo.loc(f, loop), f"truth table too large ({wit})", key=F + '::decision-order', fn=f.qual)
        else:
            chk.ob('C19.e', 'denylist -> noncoding -> coding -> expression', repo.loc(f, loop), eqv,
                   'the keep decision differs from the documented decision list (denylisted unless canonical and keep-canonical: drop; else keep-all-noncoding / keep-all-coding: keep; '
                   f"else no expression table: keep; else exemptions or expression >= cutoff) when {sorted(k for k, v in (wit or {}).items() if v)} hold and "
                   f"{sorted(k for k, v in (wit or {}).items() if not v)} do not", key=F + '::decision-order', fn=f.qual)
    # (the exemption disjunction fusion / circRNA / splice-altering / all transcripts >= cutoff is part of the decision compared above)
    dn = [x for x in walk_no_nested(loop) if isinstance(x, ast.Assign) and unparse(x.targets[0]) == 'is_in_denylist']
    chk.ob('C19.e', 'denylist membership tested on the sequence', repo.loc(f, loop), len(dn) == 1 and unparse(dn[0].value) == 'denylist is not None and peptide.seq in denylist',
           'denylist test altered', key=F + '::denylist', fn=f.qual)

    # ------------------------------------------------------------------ g
    chk.rule('C19.g', 'R-LOCKSTEP: positional reads of get_transcript_ids() need an ordered producer (donor transcript first)', 2)
    gti = repo.func('aa.VariantPeptideLabel:VariantPeptideInfo.get_transcript_ids')
    chk.uses(gti)
    positional = [n for n in ast.walk(f.node) if isinstance(n, ast.Subscript) and isinstance(n.value, ast.Call) and call_name(n.value) == 'get_transcript_ids']
    rets = [n for n in walk_no_nested(gti.node) if isinstance(n, ast.Return)]
    ordered = all(isinstance(r.value, ast.List) for r in rets)
    chk.ob('C19.g', f"get_transcript_ids returns list displays (element order is fixed by the source) - {len(positional)} positional reader(s) in filter()", gti.where,
           bool(rets) and (ordered or not positional),
           f"{[unparse(r.value)[:50] for r in rets if not isinstance(r.value, ast.List)]} is not an ordered list display, but filter() reads element "
           f"{[unparse(p_.slice) for p_ in positional]}: which transcript decides `is_canonical` becomes arbitrary", key=gti.qual + '::ordered', fn=gti.qual)
    fus = [r for r in rets if any(isinstance(a, ast.If) and 'FusionVariantPeptideIdentifier' in unparse(a.test) for a in repo.ancestors(r))]
    okf = len(fus) == 1 and isinstance(fus[0].value, ast.List) and len(fus[0].value.elts) == 2 and unparse(fus[0].value.elts[0]).endswith('.first_tx_id') \
        and unparse(fus[0].value.elts[1]).endswith('.second_tx_id')
    chk.ob('C19.g', 'fusion entries list the donor (first) transcript first', repo.loc(gti, fus[0]) if fus else gti.where, okf or not positional,
           f"fusion branch returns {unparse(fus[0].value) if fus else None}: filter() takes element [0] as the transcript that decides whether a denylisted entry is "
           "canonical, so with another order --keep-canonical keeps / drops fusion entries by the wrong transcript", key=gti.qual + '::donor-first', fn=gti.qual)

    # ------------------------------------------------------------------ f
    chk.rule('C19.f', 'R-TRUTHY: numeric options are never tested by truthiness (0 is a legal value)', 1)
    from sa import options as O
    sp = repo.func('cli.filter_fasta:add_subparser_filter_fasta')
    ff = repo.func('cli.filter_fasta:filter_fasta')
    chk.uses(sp, ff)
    numeric = set()
    for c in G.find_calls(sp.node, 'add_argument'):
        t = kwarg(c, 'type')
        if t is not None and unparse(t) in ('int', 'float'):
            longs = [a.value for a in c.args if isinstance(a, ast.Constant) and str(a.value).startswith('--')]
            if longs:
                numeric.add(longs[0][2:].replace('-', '_'))
    offenders = []
    for n in ast.walk(ff.node):
        if isinstance(n, ast.Attribute) and unparse(n.value) == 'args' and n.attr in numeric:
            p_ = repo.parent(n)
            truthy = (isinstance(p_, (ast.If, ast.While)) and p_.test is n) or isinstance(p_, ast.BoolOp) or \
                (isinstance(p_, ast.UnaryOp) and isinstance(p_.op, ast.Not)) or (isinstance(p_, ast.IfExp) and p_.test is n)
            if truthy:
                offenders.append(f"{repo.loc(ff, n)}: args.{n.attr}")
    chk.ob('C19.f', f"numeric options {sorted(numeric)} are compared, not truth-tested", ff.where, bool(numeric) and not offenders,
           f"numeric option used as a boolean at {offenders}: the value 0 (e.g. --quant-cutoff 0) silently switches the filter off, so a stricter cutoff keeps more",
           key=ff.qual + '::numeric-truthiness', fn=ff.qual)
    # ------------------------------------------------------------------ shared: option plumbing by name
    from rules.shared import optname
    chk.clauses.append('C19.h (shared R-THREAD) an option value bound to a name that is itself a CLI option carries that very option')
    optname(chk, repo, 'C19.h', ['cli.filter_fasta'], floor=0)
    # ------------------------------------------------------------------ i: the coding-transcript set feeds every consumer
    chk.rule('C19.i', 'R-OPTION scope: the coding-transcript set is loaded from the reference alone and handed to filter() unconditionally', 3)
    chk.clauses.append('C19.i the coding-transcript set (used for keep-all-coding, keep-all-noncoding AND for the canonical test of the denylist rule) '
                       'is loaded from the reference options only and is passed to filter() on every path')
    lc = repo.func('cli.filter_fasta:load_coding_transcripts')
    ff = repo.func('cli.filter_fasta:filter_fasta')
    chk.uses(lc, ff)
    reads = sorted({n.attr for n in ast.walk(lc.node) if isinstance(n, ast.Attribute) and unparse(n.value) == 'args'})
    ref_opts = {'index_dir', 'annotation_gtf', 'genome_fasta', 'proteome_fasta', 'reference_source', 'invalid_protein_as_noncoding'}
    chk.ob('C19.i', 'load_coding_transcripts reads only reference options', lc.where, set(reads) <= ref_opts and bool(reads),
           f"load_coding_transcripts also depends on {sorted(set(reads) - ref_opts)}: the set can be empty although the canonical test of --denylist/--keep-canonical needs it",
           key=lc.qual + '::option-scope', fn=lc.qual)
    empties = [n for n in ast.walk(lc.node) if isinstance(n, ast.Return) and (n.value is None or (isinstance(n.value, ast.Call) and call_name(n.value) in ('set', 'list') and not n.value.args)
               or (isinstance(n.value, (ast.Set, ast.List, ast.Tuple)) and not n.value.elts) or (isinstance(n.value, ast.Constant) and n.value.value is None))]
    chk.ob('C19.i', 'load_coding_transcripts never returns a constant empty set', lc.where, not empties,
           'load_coding_transcripts can return an empty collection without reading the reference', key=lc.qual + '::no-empty-return', fn=lc.qual)
    fcfg = CFG(ff.node)
    calls = [c for c in G.find_calls(ff.node, 'filter') if kwarg(c, 'coding_transcripts') is not None]
    okp = len(calls) == 1
    if okp:
        v = kwarg(calls[0], 'coding_transcripts')
        src = G.resolve_local(ff.node, v.id) if isinstance(v, ast.Name) else v
        okp = isinstance(src, ast.Call) and call_name(src) == 'load_coding_transcripts' and [unparse(a) for a in src.args] == ['args']
        if okp and isinstance(v, ast.Name):
            site = fcfg.node_for(repo.enclosing_stmt(calls[0]))
            defs = [n.id for n in fcfg.nodes if n.kind == 'stmt' and isinstance(n.ast, ast.Assign) and unparse(n.ast.targets[0]) == v.id]
            okp = len(defs) == 1 and fcfg.dominates(defs[0], site)
    chk.ob('C19.i', 'filter() receives load_coding_transcripts(args) on every path', ff.where, okp,
           'the coding-transcript set passed to filter() is not the unconditionally loaded one', key=ff.qual + '::coding-tx-threading', fn=ff.qual)
    from rules.shared import kwname
    chk.clauses.append('C19.kw (shared R-THREAD) parameters handed on as keyword arguments keep their name: no `a=b` between two parameters of one function')
    kwname(chk, repo, 'C19.kw', ['aa.VariantPeptidePool', 'cli.filter_fasta'], floor=0)
    from rules.shared import options_live
    chk.clauses.append('C19.j (shared R-OPTION) every option filterFasta itself defines is read by its code: none silently falls back to a library default')
    options_live(chk, repo, 'C19.j', 'cli.filter_fasta:add_subparser_filter_fasta', 'cli.filter_fasta:filter_fasta', ('cli.filter_fasta', 'cli.common'), floor=10)
    novel_orf_type_decision(chk, repo, 'C19.k')


def novel_orf_type_decision(chk, repo, rid):
    """Decision function: a header entry that was not recognised as fusion / circRNA is a novel-ORF identifier exactly when it has no
    variant ids of a transcript and carries an ORF id - whether it also carries W2F / SECT labels (alt_ids) does not matter.  Otherwise
    it is a base variant identifier.  The condition under which the entry is typed NovelORFPeptideIdentifier (inside `if
    IdentifierType is None`) is built as one boolean expression and compared by truth table."""
    from sa import sem
    chk.rule(rid, 'decision: an entry without transcript variants and with an ORF id is a novel-ORF identifier (alt labels do not matter)', 1)
    chk.clauses.append('C19.k parse_variant_peptide_id types an entry as novel ORF iff it has no variant ids and an ORF id (W2F / SECT labels do not change the type): the filter sees novel-ORF entries as such and keeps their gene id')
    f = repo.func('aa.VariantPeptideIdentifier:parse_variant_peptide_id')
    chk.uses(f)

    def is_novel(st):
        if not isinstance(st, (ast.Assign, ast.Expr)):
            return False
        if isinstance(st, ast.Assign) and unparse(st.targets[0]) == 'IdentifierType' and unparse(st.value) == 'NovelORFPeptideIdentifier':
            return True
        return any(isinstance(c, ast.Call) and any(unparse(a) == 'NovelORFPeptideIdentifier' for a in c.args) for c in ast.walk(st))
    outer = [n for n in ast.walk(f.node) if isinstance(n, ast.If) and unparse(n.test) in ('IdentifierType is None', 'not IdentifierType')
             and any(is_novel(x) for x in ast.walk(n) if isinstance(x, ast.stmt))]
    if len(outer) != 1:
        chk.undecided(rid, 'identifier type inference', f.where, f"{len(outer)} `if IdentifierType is None` blocks that type an entry as novel ORF found", key=f.qual + '::novel-orf-type', fn=f.qual)
        return
    ec = sem.emit_condition(f.node, outer[0].body, is_novel)
    if ec is None:
        chk.undecided(rid, 'identifier type inference', repo.loc(f, outer[0]), 'the condition could not be expressed as one decision', key=f.qual + '::novel-orf-type', fn=f.qual)
        return
    want = ast.parse('not var_ids and orf_id is not None', mode='eval').body
    eqv, wit = sem.tt_equal(ec[0], want)
    if eqv is None:
        chk.undecided(rid, 'identifier type inference', repo.loc(f, outer[0]), f"truth table too large ({wit})", key=f.qual + '::novel-orf-type', fn=f.qual)
        return
    chk.ob(rid, 'novel ORF <=> no variant ids and an ORF id', repo.loc(f, outer[0]), eqv,
           f"the entry is typed novel ORF under `{unparse(ec[0])[:120]}`: differs from `not var_ids and orf_id is not None` when {sorted(k for k, x in (wit or {}).items() if x)} hold and "
           f"{sorted(k for k, x in (wit or {}).items() if not x)} do not (a novel-ORF entry with only W2F / SECT labels is parsed as a base variant identifier: gene id lost, "
           "wrongly exempted or filtered)", key=f.qual + '::novel-orf-type', fn=f.qual)

"""C17 - parseCIRCexplorer.

a R-AFFINE-EQV each fragment and the back-splice interval are the definitional gene intervals of the reported genomic blocks; id from mapped bounds
b R-ONCE/R-HANDLER every skip path increments skipped.total and exactly one reason; unknown isoforms / exons / introns are skipped, not fatal
c R-KEYS    emitted GVF round trip (shared with C13.a); GVF start anchored at the first fragment
d           intron tolerance tests are strand-mirrored (sign of the offsets)
"""
import ast
import re
from sa.model import unparse, norm_stmt, call_name, kwarg, walk_no_nested, AnalysisError
from sa.cfg import CFG, iteration_paths
from sa import guards as G
from sa.affine import Interp, Aff, Obj, model_g2gene

CONV = 'parser.CIRCexplorerParser:CIRCexplorer2KnownRecord.convert_to_circ_rna'
CLI = 'cli.parse_circexplorer:parse_circexplorer'
REASONS = ('invalid_record', 'insufficient_evidence', 'invalid_gene_id', 'invalid_position')


def is_inc(n, target):
    return n.kind == 'stmt' and isinstance(n.ast, ast.AugAssign) and isinstance(n.ast.op, ast.Add) and unparse(n.ast.target) == target and unparse(n.ast.value) == '1'


def run(chk, repo):
    chk.clauses = [
        'C17.a fragment [start+offset, start+offset+size) and back-splice [start,end) are mapped to the definitional gene intervals on both strands; the id encodes the mapped back-splice bounds',
        'C17.b every path that leaves an iteration without storing a record increments skipped.total and exactly one reason; isoforms / exons / introns not in the annotation are skipped',
        'C17.c the emitted line anchors OFFSETs at the first fragment start (the column the reader adds them to)',
        'C17.d intron start/end tolerance offsets on the - strand are the mirrored + strand offsets',
    ]
    chk.not_decided = ['block/offset semantics of CIRCexplorer 2/3 files', 'exon / intron matching tolerance semantics beyond sign symmetry']
    f = repo.func(CONV)
    chk.uses(f)

    # ------------------------------------------------------------------ a
    chk.rule('C17.a', 'R-AFFINE-EQV fragments and back-splice interval', 5)
    models = {'coordinate_genomic_to_gene': model_g2gene()}

    def canon(t):
        return t
    S, E = Aff.sym('S'), Aff.sym('E')
    fn = ast.parse(unparse(f.node)).body[0]
    nb = []
    for st in fn.body:
        if isinstance(st, ast.For) and 'exon_sizes' in unparse(st.iter):
            # interpret one iteration of the block loop, without the index lookups
            nb.append(ast.parse('exon_size = SIZE').body[0])
            nb += [x for x in st.body if not (isinstance(x, ast.If) and 'fragment_type' in unparse(x.test))]
        else:
            nb.append(st)
    fn.body = nb
    for s in (1, -1):
        it = Interp(s, call_models=models, canon=canon, record=('FeatureLocation',), max_paths=256)
        got_frag, got_bs, ids = set(), set(), set()
        for p in it.run_function(fn):
            if p.end != 'return':
                continue
            for l in p.locs:
                st, en = l['kwargs'].get('start'), l['kwargs'].get('end')
                if l['kwargs'].get('strand') is not None:
                    got_frag.add((repr(st), repr(en)))
                else:
                    got_bs.add((repr(st), repr(en)))
            ids.add((repr(p.env.get('start_gene')), repr(p.env.get('end_gene'))))
        g0 = Aff.sym('self.start') + Aff.sym('self.exon_offsets[i]')
        g1 = g0 + Aff.sym('SIZE')
        wf = (g0 - S, g1 - S) if s == 1 else (E - g1, E - g0)
        b0, b1 = Aff.sym('self.start'), Aff.sym('self.end')
        wb = (b0 - S, b1 - S) if s == 1 else (E - b1, E - b0)
        chk.ob('C17.a', f"strand {s:+d}: fragment -> [{wf[0]!r}, {wf[1]!r})", f.where, got_frag == {(repr(wf[0]), repr(wf[1]))},
               f"fragment interval on strand {s:+d} is {sorted(got_frag)}, definitional [{wf[0]!r}, {wf[1]!r})", key=f"{CONV}::fragment::{s:+d}", fn=f.qual)
        chk.ob('C17.a', f"strand {s:+d}: back-splice -> [{wb[0]!r}, {wb[1]!r}) and id uses it", f.where,
               got_bs == {(repr(wb[0]), repr(wb[1]))} and ids == {(repr(wb[0]), repr(wb[1]))},
               f"back-splice interval on strand {s:+d} is {sorted(got_bs)} (id bounds {sorted(ids)}), definitional [{wb[0]!r}, {wb[1]!r})",
               key=f"{CONV}::backsplice::{s:+d}", fn=f.qual)
    idn = [n for n in walk_no_nested(f.node) if isinstance(n, ast.Assign) and unparse(n.targets[0]) == 'circ_id']
    ok = len(idn) == 1 and isinstance(idn[0].value, ast.JoinedStr) and \
        ''.join(v.value if isinstance(v, ast.Constant) else '{' + unparse(v.value) + '}' for v in idn[0].value.values) == 'CIRC-{tx_id}-{start_gene}:{end_gene}'
    chk.ob('C17.a', 'id = CIRC-<tx>-<mapped start>:<mapped end>', f.where, ok, 'circRNA id format altered', key=f"{CONV}::id", fn=f.qual)

    # ------------------------------------------------------------------ b
    chk.rule('C17.b', 'R-ONCE: skip paths count total and exactly one reason; unknown references skipped', 5)
    c = repo.func(CLI)
    chk.uses(c)
    cfg = CFG(c.node)
    loop = next((l for l in walk_no_nested(c.node) if isinstance(l, ast.For) and call_name(l.iter) == 'parse'), None)
    if loop is None:
        raise AnalysisError(f"anchor={CLI}: record loop not found")
    ps = iteration_paths(cfg, loop, max_paths=20000)
    chk.paths += len(ps)
    bad = None
    for p in ps:
        if p.end_kind() not in ('back', 'continue'):
            continue
        nodes = p.nodes()
        stored = any(n.kind == 'stmt' and isinstance(n.ast, ast.Expr) and isinstance(n.ast.value, ast.Call) and call_name(n.ast.value) == 'append'
                     and [unparse(a) for a in n.ast.value.args] == ['circ_record'] and unparse(n.ast.value.func.value).startswith('circ_records')
                     for n in nodes)
        tot = sum(1 for n in nodes if is_inc(n, 'tally.skipped.total'))
        rs = sum(1 for n in nodes if any(is_inc(n, f'tally.skipped.{r}') for r in REASONS))
        if stored and (tot or rs):
            bad = bad or p
        if not stored and not (tot == 1 and rs == 1):
            bad = bad or p
    chk.ob('C17.b', 'every non-storing iteration path counts skipped.total and one reason; storing paths count none', repo.loc(c, loop), bad is None,
           'an iteration path drops a record without counting it (or counts a stored record as skipped)', key=CLI + '::skip-tally',
           path=bad.describe(c.module.relpath) if bad else None, fn=c.qual)
    hs = [h for t in walk_no_nested(loop) if isinstance(t, ast.Try) for h in t.handlers]
    for en in ('ExonNotFoundError', 'IntronNotFoundError'):
        hh = [h for h in hs if h.type is not None and (unparse(h.type).endswith(en) or (isinstance(h.type, ast.Tuple) and any(unparse(e).endswith(en) for e in h.type.elts)
                                                                                        and all(unparse(e).endswith(('ExonNotFoundError', 'IntronNotFoundError')) for e in h.type.elts)))]
        ok = len(hh) == 1 and isinstance(hh[0].body[-1], ast.Continue) and any(norm_stmt(s) == 'tally.skipped.invalid_record += 1' for s in hh[0].body)
        chk.ob('C17.b', f"{en} -> skip and count invalid_record", repo.loc(c, hh[0]) if hh else c.where, ok, f"{en} is not skipped-and-counted", key=CLI + f'::{en}', fn=c.qual)
    # isoform lookup: anno.transcripts[<record-derived>] must be membership-tested by the CLI (or converted)
    sub = [n for n in ast.walk(f.node) if isinstance(n, ast.Subscript) and unparse(n.value) == 'anno.transcripts']
    site = cfg.node_for(repo.enclosing_stmt(G.find_calls(c.node, 'convert_to_circ_rna')[0]))
    guarded = G.must_at(cfg, site, 'record.isoform_name in anno.transcripts', start=cfg.node_for(loop), start_label='loop')
    chk.ob('C17.b', 'records whose isoform is not annotated are skipped before conversion', repo.loc(c, loop), guarded and len(sub) == 1,
           'convert_to_circ_rna indexes anno.transcripts with the record\'s isoform; the CLI does not test membership first: an unknown isoform aborts the run',
           key=CLI + '::isoform-membership', fn=c.qual)
    thr = repo.func('parser.CIRCexplorerParser:CIRCexplorer2KnownRecord.is_valid')
    chk.uses(thr)
    chk.ob('C17.b', 'read threshold: read_number >= min_read_number', thr.where, unparse(thr.node.body[-1]) == 'return self.read_number >= min_read_number',
           'read-number threshold comparison altered', key=thr.qual, fn=thr.qual)
    if not any(is_inc(n, 'tally.succeed') for n in cfg.nodes):
        chk.note('parseCIRCexplorer never increments tally.succeed (summary always logs 0 successfully processed records)')

    # ------------------------------------------------------------------ c
    chk.rule('C17.c', 'GVF line anchors at the first fragment start', 1)
    ts = repo.func('circ.CircRNA:CircRNAModel.to_string')
    chk.uses(ts)
    from rules.shared import circ_writer
    from sa.affine import Aff as _Aff
    cw = circ_writer(repo, ts)
    ok = cw['anchor_core'] == 'self.fragments[0].location.start' and cw['off'] is not None \
        and cw['off'] == _Aff.sym('fragment.location.start') - _Aff.sym('F0')
    chk.ob('C17.c', 'start column = fragments[0].start; OFFSET_i = fragment_i.start - that start; not reassigned in between', ts.where, ok,
           f"start column `{cw['anchor']}`, OFFSET element {cw['off']!r}: the start column written differs from the anchor the offsets were computed against "
           "(every fragment is shifted when read back)", key=ts.qual + '::anchor', fn=ts.qual)

    # ------------------------------------------------------------------ d
    chk.rule('C17.d', 'intron tolerance offsets are strand-mirrored', 2)
    fi = repo.func('gtf.GenomicAnnotation:GenomicAnnotation.find_intron_index')
    chk.uses(fi)
    # value based: the quantity tested against each tolerance range (a parameter), per strand branch, as an affine form over
    # feature.location.{start,end} and <exon>.location.{start,end}; local names and intermediate variables do not matter
    from sa import sem as _s17
    from sa.affine import simple_aff
    nfi = _s17.nf(repo, fi)
    ch17 = _s17.block_chains(nfi)
    pars = [a.arg for a in nfi.args.args]
    if 'intron_start_range' not in pars or 'intron_end_range' not in pars or 'feature' not in pars:
        raise AnalysisError('anchor=find_intron_index: tolerance range parameters not found')

    own_of = {}
    for st_ in ast.walk(nfi):
        if isinstance(st_, (ast.If, ast.While)):
            for x_ in ast.walk(st_.test):
                own_of.setdefault(id(x_), st_)

    def rng_cmp(e, rng):
        # the tolerance window of parameter `rng`: FeatureLocation(start=rng[0], end=rng[1] + 1), under whatever name it is kept
        want_w = f"FeatureLocation(start={rng}[0], end={rng}[1] + 1)"
        out = []
        for c in ast.walk(e):
            if isinstance(c, ast.Compare) and len(c.ops) == 1 and isinstance(c.ops[0], (ast.In, ast.NotIn)):
                ctx = own_of.get(id(c))
                w = unparse(_s17.expand_names(nfi, ctx, c.comparators[0], chains=ch17, allow_calls=('FeatureLocation',))) if ctx is not None else unparse(c.comparators[0])
                if w == want_w:
                    out.append(c)
        return out
    offs = {}
    for rng, k in (('intron_start_range', 'start_offset'), ('intron_end_range', 'end_offset')):
        for tst, own, fx in _s17.facts_at_tests(nfi, lambda e, rng=rng: bool(rng_cmp(e, rng))):
            strand = None
            for (lt, tv) in _s17.sure_literals(fx):
                m0 = re.match(r'^(-?1) == (?:.*\.)?strand$', lt)
                if m0 and tv:
                    strand = int(m0.group(1))
            for c in rng_cmp(tst, rng):
                # the tested quantity is the value of its defining assignment (expanded AT the definition)
                e_ = c.left
                if isinstance(e_, ast.Name):
                    r_ = _s17.nearest_def_stmt(nfi, own, e_.id, ch17)
                    if r_ is not None and e_.id not in _s17._stores_in(r_[1]):
                        e_ = _s17.expand_names(nfi, r_[0], r_[0].value, chains=ch17)
                else:
                    e_ = _s17.expand_names(nfi, own, e_, chains=ch17)
                a = simple_aff(e_)
                form = None
                if a is not None and a.c == 0 and len(a.t) == 2:
                    form = {}
                    for sym, co in a.t.items():
                        m_ = re.match(r'^(\w+)\.location\.(start|end)$', sym)
                        if not m_:
                            form = None
                            break
                        form[('F' if m_.group(1) == 'feature' else 'E') + '.' + m_.group(2)] = int(co)
                offs.setdefault((k, strand), []).append(form)
    want = {('start_offset', 1): {'F.start': 1, 'E.end': -1}, ('end_offset', 1): {'F.end': 1, 'E.start': -1},
            ('start_offset', -1): {'F.end': -1, 'E.start': 1}, ('end_offset', -1): {'F.start': -1, 'E.end': 1}}
    for k in ('start_offset', 'end_offset'):
        ok17 = all(offs.get((k, s_)) and all(f_ == want[(k, s_)] for f_ in offs[(k, s_)]) for s_ in (1, -1)) and not offs.get((k, None))
        chk.ob('C17.d', f"{k}: - strand value is the negated mirrored + strand difference", fi.where, ok17,
               f"{k}: + {offs.get((k, 1))}, - {offs.get((k, -1))}, outside the strand branches {offs.get((k, None))} (expected {want[(k, 1)]} / {want[(k, -1)]}; "
               "F = the intron, E = the exon looked at): the tolerance window is applied mirrored on the - strand",
               key=fi.qual + '::' + k, fn=fi.qual)

    # pairing of offsets and tolerance ranges
    chk.rule('C17.e', 'tolerance tests pair start_offset with intron_start_range and end_offset with intron_end_range; CIRCexplorer3 thresholds all effective', 2)
    # (the pairing of each offset with the tolerance window of its own intron end is decided by C17.d: the quantity tested against the window of
    # `intron_start_range` must have the start form, the one tested against the window of `intron_end_range` the end form)
    n_pair = sum(len(v_) for k_, v_ in offs.items() if k_[1] in (1, -1))
    chk.ob('C17.e', f"{n_pair} tolerance tests, each pairing an offset with the window of the same intron end (forms checked by C17.d)", fi.where, n_pair >= 4,
           f"only {n_pair} tolerance tests found on the strand branches", key=fi.qual + '::pairing', fn=fi.qual)
    v3 = repo.func('parser.CIRCexplorerParser:CIRCexplorer3KnownRecord.is_valid')
    chk.uses(v3)
    vcfg = CFG(v3.node)
    bad = None
    need = ['not min_fbr_circ or not self.fpb_circ < min_fbr_circ', 'not min_circ_score or not self.circ_score < min_circ_score']
    for pth in vcfg.paths(vcfg.entry, max_paths=500):
        if pth.end_kind() != 'return':
            continue
        last = vcfg.nodes[pth.steps[-1][0]].ast
        if isinstance(last.value, ast.Constant) and last.value.value is False:
            continue
        # a non-False return: both threshold rejects must be known false on the path and the value must be the base-class verdict
        if not all(pth.facts.known(x) is True for x in need) or unparse(last.value) != 'super().is_valid(min_read_number)':
            bad = bad or pth
    chk.ob('C17.e', 'CIRCexplorer3.is_valid accepts only if fpb_circ and circ_score pass AND the read-number test of the base class passes', v3.where, bad is None,
           'a path of is_valid returns something other than False without all three threshold verdicts being conjoined (a later verdict overwrites an earlier one)',
           key=v3.qual + '::conjunction', path=bad.describe(v3.module.relpath) if bad else None, fn=v3.qual)
    # ------------------------------------------------------------------ shared: option plumbing by name
    from rules.shared import optname
    chk.clauses.append('C17.f (shared R-THREAD) an option value bound to a name that is itself a CLI option carries that very option')
    optname(chk, repo, 'C17.f', ['cli.parse_circexplorer'], floor=0)
    from rules.shared import memo_params
    chk.clauses.append('C17.g exon / intron index look-ups of the annotation are not served from a cache keyed by less than the transcript they were computed for')
    memo_params(chk, repo, 'C17.g', ['gtf.GenomicAnnotation:GenomicAnnotation.', 'gtf.GenomicAnnotationOnDisk:GenomicAnnotationOnDisk.', 'gtf.TranscriptAnnotationModel:'], floor=0)
    from rules.shared import instance_state_per_instance
    chk.clauses.append('C17.k (R-FRESH) the caches of loaded gene / transcript models behind the annotation, and every other container a gtf / circ / parser class changes in place through self, are bound per instance by a constructor (two annotations in one process never serve each other\'s entries)')
    instance_state_per_instance(chk, repo, 'C17.k', ['gtf', 'circ', 'parser.CIRCexplorerParser'], floor=4)
    from rules.shared import kwname
    chk.clauses.append('C17.kw (shared R-THREAD) parameters handed on as keyword arguments keep their name: no `a=b` between two parameters of one function')
    kwname(chk, repo, 'C17.kw', ['parser.CIRCexplorerParser', 'cli.parse_circexplorer'], floor=0)
    # ------------------------------------------------------------------ h: circular sequence = fragments in order, each exactly its interval
    from sa import sem as _s17
    chk.rule('C17.h', 'R-AFFINE-SLICE: the circRNA sequence is the concatenation, in sorted fragment order, of gene[fragment.start:fragment.end]', 2)
    chk.clauses.append('C17.h get_circ_rna_sequence concatenates, in sorted fragment order, exactly the gene-sequence slice [start, end) of each fragment')
    gq = repo.func('circ.CircRNA:CircRNAModel.get_circ_rna_sequence')
    chk.uses(gq)
    ngq = _s17.nf(repo, gq)
    ch17 = _s17.block_chains(ngq)
    lps = [l for l in ast.walk(ngq) if isinstance(l, ast.For) and isinstance(l.target, ast.Name) and 'fragments' in unparse(l.iter)]
    ok17 = len(lps) == 1 and unparse(lps[0].iter) == 'sorted(self.fragments)'
    chk.ob('C17.h', 'fragments are visited in sorted order', gq.where, ok17, f"fragment loop iterates {[unparse(l.iter) for l in lps]}", key=gq.qual + '::order', fn=gq.qual)
    ok17 = False
    got17 = []
    if len(lps) == 1:
        Fv = lps[0].target.id
        param = [p_ for p_ in gq.params() if p_ != 'self'][0]
        for n in ast.walk(lps[0]):
            if isinstance(n, ast.Subscript) and isinstance(n.slice, ast.Slice) and unparse(n.value) == param:
                lo = re.sub(r'^int\((.*)\)$', r'\1', unparse(n.slice.lower)) if n.slice.lower is not None else None
                hi = re.sub(r'^int\((.*)\)$', r'\1', unparse(n.slice.upper)) if n.slice.upper is not None else None
                got17.append((lo, hi))
        ok17 = bool(got17) and all(g_ == (f'{Fv}.location.start', f'{Fv}.location.end') for g_ in got17)
        # concatenation appends on the right: `circ + new` (never `new + circ`)
        for n in ast.walk(lps[0]):
            if isinstance(n, ast.BinOp) and isinstance(n.op, ast.Add) and isinstance(n.right, ast.Name) and unparse(n.right) == 'circ':
                ok17 = False
    chk.ob('C17.h', 'each fragment contributes gene[start:end] appended on the right', gq.where, ok17,
           f"slices taken: {got17} (expected (fragment.location.start, fragment.location.end)) / concatenation order altered", key=gq.qual + '::slice', fn=gq.qual)
    chk.clauses.append('C17.i find_exon_index scans the exons in transcript order, returns the scan index of the exon equal to the reported block, stops early only past it, and raises otherwise')
    exon_scan(chk, repo, 'C17.i')
    from rules.shared import exclusive_end_membership
    chk.clauses.append('C17.j (R-KIND) no exclusive `.end` coordinate is tested for membership in a half-open location without the equal-ends case: the last exon of a transcript is found like any other')
    exclusive_end_membership(chk, repo, 'C17.j', ['gtf', 'parser.CIRCexplorerParser', 'circ'], floor=1)


def exon_scan(chk, repo, rid):
    """find_exon_index: the exons are scanned in transcript order, the index of the exon EQUAL to the feature is returned, the
    scan stops early only once the exons are past the feature in scan direction (R-NEAREST: direction x comparison), and a
    feature that is no exon raises ExonNotFoundError.  Decided from must-facts at the return / break sites."""
    import re
    from sa import sem
    chk.rule(rid, 'R-NEAREST: find_exon_index returns the scan index of the equal exon; early stop only past the feature in scan direction; otherwise ExonNotFoundError', 7)
    f = repo.func('gtf.GenomicAnnotation:GenomicAnnotation.find_exon_index')
    chk.uses(f)
    nf = sem.nf(repo, f)
    lf = sem.facts_at_loops(nf)
    loops_ = [l for l in ast.walk(nf) if isinstance(l, ast.For) and isinstance(l.iter, ast.Call) and call_name(l.iter) == 'enumerate'
              and isinstance(l.target, ast.Tuple) and len(l.target.elts) == 2 and all(isinstance(e, ast.Name) for e in l.target.elts)]
    seen = set()
    if not loops_:
        # the scan was moved / merged into a shape this rule does not read: say so, never call it a violation
        chk.undecided(rid, 'exon scans of find_exon_index', f.where, 'no `for i, exon in enumerate(...)` scan found in find_exon_index (restructured?)',
                      key=f"{f.qual}::strands", fn=f.qual)
        return
    # one specialised copy of the function per strand (E10: the strand expression replaced by +1 / -1 and folded): a scan written
    # once and parametrised by the strand reads, per strand, like the plain scan
    from sa.canon import normal_form as _normal_form, literal_constants as _lit_consts
    strand_exprs = {unparse(c) for c in ast.walk(f.node) if isinstance(c, (ast.Name, ast.Attribute)) and isinstance(c.ctx, ast.Load) and re.fullmatch(r'(?:.*\.)?strand', unparse(c))}
    if not strand_exprs:
        chk.undecided(rid, 'exon scans of find_exon_index', f.where, 'no comparison of the transcript strand found', key=f"{f.qual}::strands", fn=f.qual)
        return
    per_strand = []
    for sv in (1, -1):
        # specialise the source form, then take its normal form (locals that became single-assignment are expanded, operator.gt /
        # operator.lt calls become comparisons)
        sp = _normal_form(sem.specialise(f.node, lambda t, sv=sv: sv if (t == 'strand' or t.endswith('.strand')) else None, tables=sem.module_tables(f.module)),
                          _lit_consts(f.module.tree), flow=True)
        for lp in [l for l in ast.walk(sp) if isinstance(l, ast.For) and isinstance(l.iter, ast.Call) and call_name(l.iter) == 'enumerate'
                   and isinstance(l.target, ast.Tuple) and len(l.target.elts) == 2 and all(isinstance(e, ast.Name) for e in l.target.elts)]:
            per_strand.append((sv, sp, lp))
    for strand, nf_s, lp in per_strand:
        seen.add(strand)
        sg = f"strand {strand:+d}"
        iv, ev = (e.id for e in lp.target.elts)
        it = unparse(lp.iter.args[0]) if lp.iter.args else ''
        start = kwarg(lp.iter, 'start') or (lp.iter.args[1] if len(lp.iter.args) > 1 else None)
        EX = r'self\.transcripts\[transcript_id\]\.exon'
        ok_it = bool(re.fullmatch(EX if strand == 1 else rf'reversed\({EX}\)', it)) and start is None
        chk.ob(rid, f"{sg}: exons are scanned in transcript order, counted from 0", repo.loc(f, lp), ok_it,
               f"{sg}: the scan runs over `{unparse(lp.iter)}`", key=f"{f.qual}::scan-order::{strand:+d}", fn=f.qual)
        inside = {id(x) for x in ast.walk(lp)}
        rets = [(st, sem.sure_literals(fx2)) for st, fx2 in sem.facts_where(nf_s, lambda st: isinstance(st, ast.Return)) if id(st) in inside and fx2 is not None]
        eq = sem.lit(f'{ev} == feature')
        ok_r = len(rets) >= 1 and all(isinstance(st.value, ast.Name) and st.value.id == iv and eq in lits for st, lits in rets)
        chk.ob(rid, f"{sg}: the index returned is that of the exon equal to the feature", repo.loc(f, lp), ok_r,
               f"{sg}: return sites {[(unparse(st.value) if st.value is not None else None, sorted(l_ for l_ in lits if ev in l_[0])) for st, lits in rets]}",
               key=f"{f.qual}::return::{strand:+d}", fn=f.qual)
        brks = [(st, sem.sure_literals(fx2)) for st, fx2 in sem.facts_where(nf_s, lambda st: isinstance(st, ast.Break)) if id(st) in inside and fx2 is not None]
        past = sem.lit(f'{ev} > feature') if strand == 1 else sem.lit(f'{ev} < feature')
        ok_b = all(past in lits for _st, lits in brks)
        chk.ob(rid, f"{sg}: the scan is abandoned only when the exon is already past the feature", repo.loc(f, lp), ok_b,
               f"{sg}: the scan breaks under {[sorted(l_ for l_ in lits if ev in l_[0]) for _st, lits in brks]} - exons behind the feature in scan direction are skipped, "
               "so an annotated exon is reported as not found", key=f"{f.qual}::early-stop::{strand:+d}", fn=f.qual)
    chk.ob(rid, 'both strands have their scan', f.where, seen == {1, -1}, f"scans found for strands {sorted(seen)}", key=f"{f.qual}::strands", fn=f.qual)
    # the feature compared with the (genomic) exons is genomic: converted exactly when coordinate == 'gene', taken as is when
    # 'genomic', anything else is refused - path-sensitive (bounded path enumeration with facts)
    cfg_ = CFG(nf)
    loop_ids = {cfg_.node_for(lp) for lp in loops_}
    bad_p = None
    n_p = 0
    for pth in cfg_.paths(cfg_.entry, max_paths=4000):
        ids = pth.node_ids()
        if not (set(ids) & loop_ids):
            continue
        n_p += 1
        conv = any(cfg_.nodes[i].kind == 'stmt' and isinstance(cfg_.nodes[i].ast, ast.Assign) and unparse(cfg_.nodes[i].ast.targets[0]) == 'feature'
                   and call_name(cfg_.nodes[i].ast.value) == 'feature_coordinate_gene_to_genomic' for i in ids[:min(ids.index(x) for x in ids if x in loop_ids)])
        g = pth.facts.known(ast.parse("coordinate == 'gene'", mode='eval').body)
        gn = pth.facts.known(ast.parse("coordinate == 'genomic'", mode='eval').body)
        if not ((g is True and conv) or (g is False and gn is True and not conv)):
            bad_p = bad_p or pth
    chk.paths += n_p
    chk.ob(rid, "the feature is converted to genomic coordinates exactly when coordinate == 'gene'; other coordinate systems are refused", f.where,
           n_p > 0 and bad_p is None, "a path reaches the exon scan with a feature that is not known to be genomic (gene coordinates compared with genomic exons never match)",
           key=f"{f.qual}::coordinate", path=bad_p.describe(f.module.relpath) if bad_p else None, fn=f.qual)
    last = nf.body[-1]
    chk.ob(rid, 'a feature that is no exon of the transcript raises ExonNotFoundError', f.where,
           isinstance(last, ast.Raise) and last.exc is not None and 'ExonNotFoundError' in unparse(last.exc),
           'the function can fall off its end (returns None) instead of raising ExonNotFoundError', key=f"{f.qual}::not-found", fn=f.qual)
